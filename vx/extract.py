#!/usr/bin/env python3
"""Mechanical extractor: /repo source text -> one Verus file per unit.

It is a comment/string aware brace matcher, not a Rust parser.  Everything it
emits is either (a) a byte-for-byte copy of text from /repo's working tree or
(b) an *insertion* taken from the unit's contract module (vx/contracts/*.py),
or (c) one of a closed list of rewrites, every instance of which is recorded in
the returned `rewrites` list (and printed into the evidence file).

Failure to find an anchor raises ExtractError -> the driver exits 2 (undecided),
never an alarm.
"""
import re, os, json, sys

class ExtractError(Exception):
    def __init__(self, msg, fn=None):
        Exception.__init__(self, msg); self.fn = fn

# --------------------------------------------------------------------------------------
# lexical masking

def mask(src):
    """Return a string of the same length where comments, string and char literals are
    replaced by spaces (newlines kept)."""
    out = list(src)
    n = len(src)
    i = 0
    def blank(a, b):
        for k in range(a, b):
            if out[k] != '\n':
                out[k] = ' '
    while i < n:
        c = src[i]
        if c == '/' and i + 1 < n and src[i+1] == '/':
            j = src.find('\n', i)
            if j < 0: j = n
            blank(i, j); i = j; continue
        if c == '/' and i + 1 < n and src[i+1] == '*':
            depth = 1; j = i + 2
            while j < n and depth > 0:
                if src.startswith('/*', j): depth += 1; j += 2
                elif src.startswith('*/', j): depth -= 1; j += 2
                else: j += 1
            blank(i, j); i = j; continue
        # raw strings r"..." r#"..."# br"..."
        m = re.match(r'(b?r)(#*)"', src[i:i+40]) if c in 'br' and (i == 0 or not (src[i-1].isalnum() or src[i-1] == '_')) else None
        if m:
            hashes = m.group(2)
            close = '"' + hashes
            j = src.find(close, i + len(m.group(0)))
            if j < 0: raise ExtractError('unterminated raw string')
            j += len(close)
            blank(i, j); i = j; continue
        if c == '"' or (c == 'b' and i + 1 < n and src[i+1] == '"' and (i == 0 or not (src[i-1].isalnum() or src[i-1] == '_'))):
            j = i + (2 if c == 'b' else 1)
            while j < n and src[j] != '"':
                if src[j] == '\\': j += 1
                j += 1
            j += 1
            blank(i, j); i = j; continue
        if c == "'" or (c == 'b' and i + 1 < n and src[i+1] == "'" and (i == 0 or not (src[i-1].isalnum() or src[i-1] == '_'))):
            k = i + (2 if c == 'b' else 1)
            if k < n and src[k] == '\\':
                j = src.find("'", k + 2)
                if j < 0: raise ExtractError('unterminated char literal')
                blank(i, j + 1); i = j + 1; continue
            # 'x' (possibly multi-byte x) is a char literal, otherwise a lifetime
            m2 = re.match(r"[^'\\\n]'", src[k:k+6])
            if m2:
                j = k + len(m2.group(0))
                blank(i, j); i = j; continue
            i = k; continue
        i += 1
    return ''.join(out)

OPEN = {'(': ')', '[': ']', '{': '}'}
CLOSE = {')': '(', ']': '[', '}': '{'}

def match_close(m, i):
    """m[i] is an opening bracket; return index of its matching close in masked text m."""
    stack = []
    n = len(m)
    j = i
    while j < n:
        c = m[j]
        if c in OPEN: stack.append(c)
        elif c in CLOSE:
            if not stack or stack[-1] != CLOSE[c]:
                raise ExtractError('unbalanced brackets at %d' % j)
            stack.pop()
            if not stack: return j
        j += 1
    raise ExtractError('no matching close for bracket at %d' % i)

def norm(s):
    return re.sub(r'\s+', ' ', s).strip()

# --------------------------------------------------------------------------------------
# items

class Item:
    """An item (or sub-item): attrs, header, optional body."""
    def __init__(self, start, attrs, head_start, head_end, body_open, body_close, end):
        self.start = start              # offset of first attr or header
        self.attrs = attrs              # list of (a, b) spans of #[...] attributes
        self.head_start = head_start    # first char of header (after attrs)
        self.head_end = head_end        # one past header end ( == body_open or index of ';')
        self.body_open = body_open      # index of '{' or None
        self.body_close = body_close    # index of matching '}' or None
        self.end = end                  # one past last char of item
    def header(self, src):
        return norm(src[self.head_start:self.head_end])

def split_items(src, m, a, b):
    """Split masked region m[a:b] (the inside of a module / impl / trait body) into items."""
    items = []
    i = a
    while True:
        while i < b and m[i].isspace(): i += 1
        if i >= b: break
        start = i
        attrs = []
        while m.startswith('#[', i) or m.startswith('#![', i):
            j = m.index('[', i)
            k = match_close(m, j)
            attrs.append((i, k + 1))
            i = k + 1
            while i < b and m[i].isspace(): i += 1
        head_start = i
        kw = re.match(r'(pub(\s*\([^)]*\))?\s+)?(unsafe\s+)?(\w+)', m[i:b])
        first_kw = kw.group(4) if kw else ''
        # scan to ';' or '{' at depth 0 of () and []
        j = i
        body_open = body_close = None
        while True:
            if j >= b: raise ExtractError('item without end starting at offset %d: %r' % (start, src[start:start+60]))
            c = m[j]
            if c in '([':
                j = match_close(m, j) + 1; continue
            if c == '<' or c == '>':
                j += 1; continue
            if c == ';':
                head_end = j; end = j + 1; break
            if c == '{':
                if first_kw == 'use':
                    j = match_close(m, j) + 1; continue
                body_open = j; body_close = match_close(m, j)
                head_end = j; end = body_close + 1
                if first_kw in ('const', 'static', 'type', 'let'):
                    k = end
                    while k < b and m[k].isspace(): k += 1
                    if k < b and m[k] == ';': end = k + 1
                break
            j += 1
        items.append(Item(start, attrs, head_start, head_end, body_open, body_close, end))
        i = end
    return items

# --------------------------------------------------------------------------------------
# edit machinery

class Edits:
    """A set of non-overlapping edits over one source file."""
    def __init__(self, path, src):
        self.path = path; self.src = src
        self.edits = []    # (start, end, text, tag)
    def replace(self, a, b, text, tag):
        for (s, e, _, _) in self.edits:
            if a == b or s == e: continue                       # pure insertions never conflict
            if b <= s or a >= e: continue                       # disjoint
            if (a <= s and e <= b) or (s <= a and b <= e): continue   # nested: the outer one wins at render time
            raise ExtractError('overlapping edits in %s at %d..%d vs %d..%d' % (self.path, a, b, s, e))
        self.edits.append((a, b, text, tag))
    def insert(self, a, text, tag): self.replace(a, a, text, tag)
    def delete(self, a, b, tag): self.replace(a, b, '', tag)
    def render(self, a, b):
        """Render src[a:b] with edits applied.  Returns list of (text, origin);
        origin = ('src', offset) or ('ins', tag)."""
        segs = []
        # stable: inserts at same point keep registration order
        eds = [e for e in self.edits if e[0] >= a and e[1] <= b]
        order = {id(e): k for k, e in enumerate(eds)}
        eds.sort(key=lambda e: (e[0], 0 if e[0] == e[1] else 1, -(e[1]), order[id(e)]))
        pos = a
        for (s, e, text, tag) in eds:
            if s < pos:
                continue                   # swallowed by an enclosing replacement
            if s > pos: segs.append((self.src[pos:s], ('src', pos)))
            if text: segs.append((text, ('ins', tag)))
            pos = e
        if pos < b: segs.append((self.src[pos:b], ('src', pos)))
        return segs

def line_of(src, off):
    return src.count('\n', 0, off) + 1

DROP_ATTRS = re.compile(r'#\[\s*(inline|doc|deprecated|allow|automatically_derived|must_use|warn)\b')
CFG_ATTR = re.compile(r'#\[\s*cfg\s*\(\s*(not\s*\(\s*)?feature\s*=\s*"(\w+)"\s*\)?\s*\)\s*\]')

def cfg_eval(attr_text_masked_src, cfg):
    """attr text (unmasked) -> True/False/None (None: not a feature cfg we know)."""
    mm = CFG_ATTR.match(attr_text_masked_src)
    if not mm: return None
    feat = mm.group(2)
    if feat not in cfg: return None
    val = cfg[feat]
    return (not val) if mm.group(1) else val

def stmt_extent(m, i, block_close):
    """Extent of the statement/expression starting at m[i] inside a block closing at block_close.
    Returns end offset (exclusive)."""
    while m[i].isspace(): i += 1
    if re.match(r'if\b', m[i:i+3]):
        j = i
        while True:
            # find block of this if
            k = j
            while m[k] != '{':
                if m[k] in '([': k = match_close(m, k)
                k += 1
            e = match_close(m, k) + 1
            k2 = e
            while k2 < block_close and m[k2].isspace(): k2 += 1
            if re.match(r'else\b', m[k2:k2+5]):
                k3 = k2 + 4
                while m[k3].isspace(): k3 += 1
                if re.match(r'if\b', m[k3:k3+3]):
                    j = k3; continue
                if m[k3] != '{': raise ExtractError('else without block')
                return match_close(m, k3) + 1
            return e
    if re.match(r'unsafe\s*\{', m[i:i+12]):
        k = m.index('{', i)
        return match_close(m, k) + 1
    j = i
    while j < block_close:
        c = m[j]
        if c in OPEN: j = match_close(m, j) + 1; continue
        if c == ';': return j + 1
        j += 1
    # runs to end of block: trim trailing whitespace
    j = block_close
    while j > i and m[j-1].isspace(): j -= 1
    return j

class Extractor:
    def __init__(self, repo, cfg, canary=False, skip_bodies=()):
        self.repo = repo
        self.cfg = cfg
        self.canary = canary
        # functions whose bodies are left unverified on this run (fallback when a body uses a construct the verifier or
        # the extractor cannot handle): contract kept, body external_body, no in-body insertions
        self.skip_bodies = set(skip_bodies)
        self.files = {}
        self.rewrites = []     # human readable list of every non-insert rewrite
        self.dropped = []      # list of dropped things
        self.inserted = []     # tags of inserted clauses
        self.fn_meta = {}      # fn key -> dict(props, file, line)
        self.inherits = {}     # impl fn key -> trait fn key whose clauses it must establish
        self.extra_segs = {}   # (file, offset) -> list of (file, segments) spliced in at offset
    def file(self, rel):
        if rel not in self.files:
            p = os.path.join(self.repo, rel)
            if not os.path.exists(p): raise ExtractError('missing file ' + rel)
            src = open(p, encoding='utf-8').read()
            m = mask(src)
            ed = Edits(rel, src)
            # rule 1: doc comments are dropped (a doc comment left behind a dropped item is a syntax error)
            for dm in re.finditer(r'(?m)^[ \t]*//[/!].*\n', src):
                if m[dm.start():dm.end()].strip() == '':
                    ed.delete(dm.start(), dm.end(), 'drop-doc')
            self.files[rel] = (src, m, ed)
        return self.files[rel]

    def find_item(self, rel, header_pat, region=None):
        src, m, _ = self.file(rel)
        a, b = region if region else (0, len(src))
        items = split_items(src, m, a, b)
        hits = [it for it in items if re.search(header_pat, it.header(src))]
        if len(hits) != 1:
            raise ExtractError('anchor %r in %s matched %d items' % (header_pat, rel, len(hits)))
        return hits[0], items

    # ---- attribute handling: returns False if the item is configured out
    def handle_attrs(self, rel, it, what):
        src, m, ed = self.file(rel)
        keep = True
        for (a, b) in it.attrs:
            text = src[a:b]
            ev = cfg_eval(norm(text), self.cfg)
            if ev is not None:
                ed.delete(a, b, 'cfg-attr')
                if not ev: keep = False
                continue
            if DROP_ATTRS.match(norm(text)):
                ed.delete(a, b, 'drop-attr')
                continue
            if norm(text).startswith('#[cfg(') or norm(text).startswith('#[derive('):
                if norm(text).startswith('#[derive('):
                    keep_d = [d for d in re.findall(r'\w+', norm(text)[9:]) if d in ('Clone', 'Copy')]
                    ed.replace(a, b, ('#[derive(%s)]' % ', '.join(keep_d)) if keep_d else '', 'drop-attr')
                    self.dropped.append('%s:%d attribute %s on %s reduced to derive(%s)' % (rel, line_of(src, a), norm(text), what, ', '.join(keep_d)))
                    continue
                raise ExtractError('unsupported cfg attribute %s at %s:%d' % (text, rel, line_of(src, a)))
        return keep

    # ---- statement level cfg inside a body
    def handle_body_cfgs(self, rel, body_open, body_close):
        src, m, ed = self.file(rel)
        i = body_open
        while True:
            j = m.find('#[', i, body_close)
            if j < 0: break
            k = match_close(m, j + 1)
            text = norm(src[j:k+1])
            ev = cfg_eval(text, self.cfg)
            if ev is None:
                if DROP_ATTRS.match(text):
                    ed.delete(j, k + 1, 'drop-attr'); i = k + 1; continue
                raise ExtractError('unsupported attribute in body: %s at %s:%d' % (text, rel, line_of(src, j)))
            # enclosing block close
            end = stmt_extent(m, k + 1, self._enclosing_close(m, j, body_open))
            if ev:
                ed.delete(j, k + 1, 'cfg-attr')
            else:
                ed.delete(j, end, 'cfg-off')
            i = k + 1 if ev else end

    def _enclosing_close(self, m, pos, lo):
        depth = 0
        j = pos
        stack = []
        # walk backwards to find the opening brace enclosing pos
        k = pos - 1
        while k >= lo:
            c = m[k]
            if c in CLOSE: stack.append(c)
            elif c in OPEN:
                if stack: stack.pop()
                else:
                    return match_close(m, k)
            k -= 1
        raise ExtractError('no enclosing block')

    # ---- function contract insertion
    def handle_fn(self, rel, it, key, spec):
        """spec: dict with optional keys ret, requires, ensures, loops, entry, attrs, closures,
        panic_points, props, decreases, returns"""
        src, m, ed = self.file(rel)
        spec = dict(spec or {})
        if key in self.skip_bodies and it.body_open is not None:
            spec = dict((k, v) for k, v in spec.items() if k in ('ret', 'requires', 'ensures', 'props', 'decreases'))
            spec['external_body'] = 'FALLBACK: body not verified on this run (unsupported construct or lost anchor)'
        ed.insert(it.head_start, '\x02%s\x03' % key, 'fnmark')
        ed.insert(it.end, '\x04', 'fnmark')
        self.fn_meta[key] = dict(file=rel, line=line_of(src, it.head_start), props=spec.get('props', []),
                                 under_contract=bool(spec.get('requires') or spec.get('ensures')),
                                 has_body=it.body_open is not None,
                                 trusted=bool(spec.get('external_body')))
        head = m[it.head_start:it.head_end]
        # name the return value
        clauses = []
        for kind in ('requires', 'ensures'):
            lst = spec.get(kind) or []
            if lst:
                clauses.append((kind, lst))
        if spec.get('ret'):
            arrow = head.find('->')
            if arrow < 0: raise ExtractError('fn %s has no return type to name' % key)
            ts = it.head_start + arrow + 2
            # return type ends at 'where' (depth 0) or header end
            te = it.head_end
            wm = re.search(r'\bwhere\b', m[ts:it.head_end])
            if wm: te = ts + wm.start()
            while m[te-1].isspace(): te -= 1
            while m[ts].isspace(): ts += 1
            ed.insert(ts, '(%s: ' % spec['ret'], 'name-ret:' + key)
            ed.insert(te, ')', 'name-ret:' + key)
            self.rewrites.append('%s:%d  fn %s: return type `%s` written `(%s: %s)` so the contract can name the result'
                                 % (rel, line_of(src, ts), key, norm(src[ts:te]), spec['ret'], norm(src[ts:te])))
        if spec.get('external_body'):
            ed.insert(it.head_start, '#[verifier::external_body]\n', 'external_body:' + key)
            self.rewrites.append('%s:%d  fn %s: body marked #[verifier::external_body] (trusted to Verus; %s)'
                                 % (rel, line_of(src, it.head_start), key, spec['external_body']))
        if self.canary == key and it.body_open is not None and not spec.get('external_body'):
            clauses = [(k, l) for (k, l) in clauses if k != 'ensures'] + [('ensures', list(spec.get('ensures') or []) + ['false'])]
        text = ''
        for kind, lst in clauses:
            text += '\n        %s\n' % kind
            for idx, cl in enumerate(lst):
                cid = '%s.%s[%d]' % (key, kind, idx)
                self.inserted.append(cid)
                text += '\x00%s\x01            %s,\n' % (cid, cl.strip())
        if spec.get('decreases'):
            text += '\n        decreases %s\n' % spec['decreases']
        if text:
            ed.insert(it.head_end, text + '    ', 'contract:' + key)
        if it.body_open is None:
            return
        if spec.get('entry'):
            ed.insert(it.body_open + 1, '\n        %s\n' % spec['entry'].strip(), 'entry-proof:' + key)
            self.inserted.append('%s.entry-proof' % key)
        # loops
        loops = spec.get('loops') or {}
        if loops:
            found = [mm for mm in re.finditer(r'\b(while|loop|for)\b', m[it.body_open:it.body_close])]
            for ordinal, lspec in loops.items():
                if ordinal >= len(found):
                    raise ExtractError('fn %s has no loop #%d' % (key, ordinal), fn=key)
                p = it.body_open + found[ordinal].start()
                q = p
                while m[q] != '{':
                    if m[q] in '([': q = match_close(m, q)
                    q += 1
                if lspec.get('iter'):
                    im = re.search(r'\bin\b', m[p:q])
                    if found[ordinal].group(1) != 'for' or not im:
                        raise ExtractError('loop #%d of fn %s is not a `for .. in ..` loop' % (ordinal, key), fn=key)
                    ip = p + im.end()
                    ed.insert(ip, ' %s:' % lspec['iter'], 'loop-iter:' + key)
                    self.rewrites.append('%s:%d  fn %s: ghost iterator binder `%s:` inserted into `%s` (Verus syntax for naming the loop iterator in invariants)'
                                         % (rel, line_of(src, p), key, lspec['iter'], norm(src[p:q])))
                t = '\n'
                for kind in ('invariant', 'ensures'):
                    lst = lspec.get(kind) or []
                    if lst:
                        t += '            %s\n' % kind
                        for idx, cl in enumerate(lst):
                            cid = '%s.loop%d.%s[%d]' % (key, ordinal, kind, idx)
                            self.inserted.append(cid)
                            t += '\x00%s\x01                %s,\n' % (cid, cl.strip())
                if lspec.get('decreases'):
                    cid = '%s.loop%d.decreases' % (key, ordinal)
                    self.inserted.append(cid)
                    t += '            decreases\n\x00%s\x01                %s,\n' % (cid, lspec['decreases'])
                ed.insert(q, t + '        ', 'loop:' + key)
        # panic points:  assert!(cond, "msg")  ->  if !(cond) { verif_panic_point(Ghost(inv)) }
        #                 panic!("msg")         ->  verif_panic_point(Ghost(inv))
        pps = spec.get('panic_points')
        found = [mm for mm in re.finditer(r'\b(assert|panic)!\s*\(', m[it.body_open:it.body_close])]
        if pps is not None and len(found) != len(pps):
            raise ExtractError('fn %s has %d assert!/panic! sites, contract names %d' % (key, len(found), len(pps)), fn=key)
        for idx, pinv in enumerate(pps or []):
            p = it.body_open + found[idx].start()
            po = it.body_open + found[idx].end() - 1
            pc = match_close(m, po)
            cid = '%s.panic%d.invariant' % (key, idx)
            self.inserted.append(cid)
            if found[idx].group(1) == 'panic':
                new = '\n\x00%s\x01            verif_panic_point(Ghost((%s)))\n        ' % (cid, pinv.strip())
                ed.replace(p, pc + 1, new, 'panic-point:' + key)
                self.rewrites.append('%s:%d  fn %s: `%s` rewritten to `verif_panic_point(Ghost(<state invariant>))` '
                                     '(a legal, diverging exit whose precondition is the invariant that must hold when the panic is raised)'
                                     % (rel, line_of(src, p), key, norm(src[p:pc+1])))
                continue
            # split args at top-level comma
            args = []; d = 0; last = po + 1
            for q in range(po + 1, pc):
                if m[q] in OPEN: d += 1
                elif m[q] in CLOSE: d -= 1
                elif m[q] == ',' and d == 0:
                    args.append((last, q)); last = q + 1
            if norm(m[last:pc]): args.append((last, pc))
            ca, cb = args[0]
            cond = src[ca:cb].strip()
            new = 'if !(%s) {\n\x00%s\x01            verif_panic_point(Ghost((%s)))\n        }' % (cond, cid, pinv.strip())
            ed.replace(p, pc + 1, new, 'panic-point:' + key)
            self.rewrites.append('%s:%d  fn %s: `%s` rewritten to `if !(%s) { verif_panic_point(Ghost(<state invariant>)) }` '
                                 '(a legal, diverging exit whose precondition is the invariant that must hold when the panic is raised)'
                                 % (rel, line_of(src, p), key, norm(src[p:pc+1]), cond))
        # closures: the k-th closure `|params| expr` that is a call argument gets an explicit result name and an
        # `ensures` clause; by default the clause is `r == (<the closure's own body text>)`.
        cl_specs = spec.get('closures') or []
        if cl_specs:
            found = []
            for mm in re.finditer(r'[(,]\s*(\|[^|]*\|)', m[it.body_open:it.body_close]):
                ps = it.body_open + mm.start(1)
                pe = it.body_open + mm.end(1)
                # body runs to the close of the enclosing call's parenthesis (or a top-level comma)
                q = pe; d = 0
                while True:
                    c = m[q]
                    if c in OPEN: d += 1
                    elif c in CLOSE:
                        if d == 0: break
                        d -= 1
                    elif c == ',' and d == 0: break
                    q += 1
                found.append((ps, pe, q))
            for cspec in cl_specs:
                k = cspec['ordinal']
                if k >= len(found):
                    # a closure spec without a hand-written clause only re-states the closure's own body: when the body
                    # of the function no longer has that closure there is nothing to annotate (not a lost anchor)
                    if 'ensures' not in cspec: continue
                    raise ExtractError('fn %s has no closure argument #%d' % (key, k), fn=key)
                ps, pe, q = found[k]
                params = src[ps + 1:pe - 1]
                body = src[pe:q].strip()
                if body.startswith('{'): raise ExtractError('closure #%d of fn %s has a block body (unsupported)' % (k, key), fn=key)
                ptxt = cspec.get('params', params)
                cid = '%s.closure%d.ensures' % (key, k)
                self.inserted.append(cid)
                ens = cspec.get('ensures', 'r == (%s)' % body)
                new = '|%s| -> (r: %s)\n            ensures\n\x00%s\x01                %s,\n        { %s }' % (ptxt, cspec['ret'], cid, ens, body)
                ed.replace(ps, q, new, 'closure:' + key)
                self.rewrites.append('%s:%d  fn %s: closure `%s` written `%s`'
                                     % (rel, line_of(src, ps), key, norm(src[ps:q]), norm(re.sub('\x00[^\x01]*\x01', '', new))))
        self.handle_body_cfgs(rel, it.body_open, it.body_close)

    # ---- containers
    def emit_item(self, ispec):
        """ispec: dict(file, header, [rehead], [inject_head], [fns], [keep], [pub_fields], [drop_sub])
        returns list of segments."""
        rel = ispec['file']
        src, m, ed = self.file(rel)
        it, _ = self.find_item(rel, ispec['header'])
        name = ispec.get('name') or ispec['header']
        if not self.handle_attrs(rel, it, name):
            self.dropped.append('%s:%d item `%s` (configured out by %s)' % (rel, line_of(src, it.start), it.header(src), self.cfg))
            return []
        if ispec.get('rehead'):
            new = ispec['rehead']
            self.rewrites.append('%s:%d  header `%s` re-headed as `%s` (bodies untouched)'
                                 % (rel, line_of(src, it.head_start), it.header(src), new))
            ed.replace(it.head_start, it.head_end, new + ' ', 'rehead')
        if ispec.get('pub_fields'):
            for fm in re.finditer(r'(?m)^(\s*)([a-z_]\w*)\s*:', m[it.body_open + 1:it.body_close]):
                p = it.body_open + 1 + fm.start(2)
                ed.insert(p, 'pub ', 'pub-field')
                self.rewrites.append('%s:%d  field `%s` of `%s` made pub in the extracted copy (visibility only)'
                                     % (rel, line_of(src, p), fm.group(2), it.header(src)))
        kind = re.match(r'(pub\s+)?(unsafe\s+)?(impl|trait|fn|struct|enum|type|const|mod)\b', it.header(src) + ' ')
        kindname = kind.group(3) if kind else '?'
        if kindname in ('impl', 'trait') and it.body_open is not None:
            fns = ispec['fns_cfg'](self.cfg) if ispec.get('fns_cfg') else (ispec.get('fns') or {})
            subs = split_items(src, m, it.body_open + 1, it.body_close)
            seen = set()
            # associated types dropped from a re-headed impl are substituted into the fn headers that name them
            assoc = {}
            for sub in subs:
                h = sub.header(src)
                tm_ = re.match(r'type (\w+) = (.*)$', h)
                if tm_ and any(re.search(p_, h) for p_ in (ispec.get('drop_sub') or [])):
                    assoc[tm_.group(1)] = tm_.group(2)
            for sub in subs:
                h = sub.header(src)
                for an, av in assoc.items():
                    for am in re.finditer(r'\bSelf::%s\b' % an, m[sub.head_start:sub.head_end]):
                        ed.replace(sub.head_start + am.start(), sub.head_start + am.end(), av, 'assoc-subst')
                        self.rewrites.append('%s:%d  `Self::%s` written `%s` (its `type %s = ...;` cannot stay in an inherent impl)'
                                             % (rel, line_of(src, sub.head_start + am.start()), an, av, an))
                fm = re.search(r'\bfn\s+(\w+)', h)
                sname = fm.group(1) if fm else h
                keep = self.handle_attrs(rel, sub, sname)
                if not keep:
                    ed.delete(sub.start, sub.end, 'cfg-off')
                    continue
                if fm:
                    key = '%s::%s' % (ispec.get('name', name), sname)
                    if ispec.get('only') is not None and sname not in ispec['only']:
                        ed.delete(sub.start, sub.end, 'drop-sub')
                        self.dropped.append('%s:%d fn %s (not in unit)' % (rel, line_of(src, sub.start), key))
                        continue
                    if sname in (ispec.get('only_not') or []):
                        ed.delete(sub.start, sub.end, 'drop-sub')
                        self.dropped.append('%s:%d fn %s (not in unit)' % (rel, line_of(src, sub.start), key))
                        continue
                    seen.add(sname)
                    if ispec.get('trait_name'): self.inherits[key] = '%s::%s' % (ispec['trait_name'], sname)
                    if sname in (ispec.get('strip_default_body') or []):
                        if sub.body_open is None: raise ExtractError('fn %s has no default body to strip' % key)
                        self.rewrites.append('%s:%d  trait default body of `%s` `%s` replaced by `;` in the trait (the body is verified '
                                             'as instantiated in the impls that inherit it)' % (rel, line_of(src, sub.body_open), key, norm(src[sub.body_open:sub.body_close+1])))
                        fake = Item(sub.start, sub.attrs, sub.head_start, sub.head_end, None, None, sub.end)
                        self.handle_fn(rel, fake, key, fns.get(sname))
                        ed.replace(sub.body_open, sub.body_close + 1, ';', 'strip-default')
                        continue
                    self.handle_fn(rel, sub, key, fns.get(sname))
                else:
                    dropsub = ispec.get('drop_sub') or []
                    if any(re.search(p, h) for p in dropsub):
                        ed.delete(sub.start, sub.end, 'drop-sub')
                        self.rewrites.append('%s:%d  `%s;` dropped from re-headed impl' % (rel, line_of(src, sub.start), h))
                    for (pat, repl) in (ispec.get('sub_rewrite') or []):
                        if re.search(pat, h):
                            new = re.sub(pat, repl, src[sub.head_start:sub.head_end])
                            ed.replace(sub.head_start, sub.head_end, new, 'sub-rewrite')
                            self.rewrites.append('%s:%d  `%s` written `%s`' % (rel, line_of(src, sub.start), h, norm(new)))
            for fname in fns:
                if fname not in seen:
                    raise ExtractError('anchor lost: fn %s not found in `%s` (%s)' % (fname, it.header(src), rel))
            for inh in ispec.get('inherit_default') or []:
                tsrc, tm, _ = self.file(inh['file'])
                tit, _ = self.find_item(inh['file'], inh['header'])
                tsubs = [x for x in split_items(tsrc, tm, tit.body_open + 1, tit.body_close)
                         if re.search(r'\bfn\s+%s\b' % inh['fn'], x.header(tsrc))]
                if len(tsubs) != 1 or tsubs[0].body_open is None:
                    raise ExtractError('default method %s not found in %s' % (inh['fn'], inh['header']))
                t = tsubs[0]
                if inh['fn'] in seen: raise ExtractError('impl `%s` now overrides %s' % (it.header(src), inh['fn']))
                key = '%s::%s' % (ispec.get('name', name), inh['fn'])
                if ispec.get('trait_name'): self.inherits[key] = '%s::%s' % (ispec['trait_name'], inh['fn'])
                # a private Edits over the trait file so that the default body can be rendered with its own contract
                sub_ex = Extractor(self.repo, self.cfg, self.canary, self.skip_bodies)
                sub_ex.files = {inh['file']: (tsrc, tm, Edits(inh['file'], tsrc))}
                sub_ex.handle_attrs(inh['file'], t, inh['fn'])
                sub_ex.handle_fn(inh['file'], t, key, inh.get('spec'))
                self.fn_meta.update(sub_ex.fn_meta); self.rewrites += sub_ex.rewrites; self.inserted += sub_ex.inserted
                segs = sub_ex.files[inh['file']][2].render(t.start, t.end)
                self.rewrites.append('%s:%d  default method `%s` of `%s` instantiated inside `%s` (which inherits it)'
                                     % (inh['file'], line_of(tsrc, t.start), inh['fn'], tit.header(tsrc), it.header(src)))
                self.extra_segs.setdefault((rel, it.body_close), []).append((inh['file'], segs))
            if ispec.get('inject_head'):
                ed.insert(it.body_open + 1, '\n' + ispec['inject_head'].rstrip() + '\n', 'inject:' + name)
        elif kindname == 'fn':
            fm = re.search(r'\bfn\s+(\w+)', it.header(src))
            self.handle_fn(rel, it, ispec.get('name', fm.group(1)), ispec.get('fn'))
        out = []
        cuts = sorted(off for (f, off) in self.extra_segs if f == rel and it.start <= off <= it.end)
        pos = it.start
        for off in cuts:
            out += [(t, o if o[0] == 'ins' else ('src', rel, o[1])) for (t, o) in ed.render(pos, off)]
            for (f2, segs) in self.extra_segs[(rel, off)]:
                out.append(('\n', ('ins', 'sep')))
                out += [(t, o if o[0] == 'ins' else ('src', f2, o[1])) for (t, o) in segs]
                out.append(('\n', ('ins', 'sep')))
            pos = off
        out += [(t, o if o[0] == 'ins' else ('src', rel, o[1])) for (t, o) in ed.render(pos, it.end)]
        return out

def build_unit(unit, repo, cfg, out_path, canary=False, skip_bodies=()):
    """unit: dict(name, prelude, items, epilogue).  Writes out_path and out_path+'.map.json'.
    canary=<fn key> adds `ensures false` to that function, which must then FAIL (if it still verifies, its
    precondition is contradictory or an assumed contract it relies on excludes everything)."""
    ex = Extractor(repo, cfg, canary, skip_bodies)
    prelude = unit['prelude'](cfg) if callable(unit['prelude']) else unit['prelude']
    epilogue = unit.get('epilogue', '')
    if callable(epilogue): epilogue = epilogue(cfg)
    segs = [(prelude + '\n', ('ins', 'prelude'))]
    # two passes: first register all edits (so that overlapping registration is caught), then render
    pending = []
    for ispec in unit['items']:
        if ispec.get('when') is not None and not ispec['when'](cfg): continue
        pending.append((ispec, ex.emit_item(ispec)))
    for ispec, s in pending:
        if not s: continue
        segs.append(('\n', ('ins', 'sep')))
        segs += s
        segs.append(('\n', ('ins', 'sep')))
    segs.append((epilogue + '\n', ('ins', 'epilogue')))
    # now flatten to lines with a line map; clause markers \x00id\x01 name the clause of a line
    out_lines = []; linemap = []
    cur = ''; cur_src = None; cur_tag = None; cur_fn = [None]
    def flush():
        nonlocal cur, cur_src, cur_tag
        mm = re.search('\x00([^\x01]*)\x01', cur)
        clause = mm.group(1) if mm else None
        fm = re.search('\x02([^\x03]*)\x03', cur)
        if fm: cur_fn[0] = fm.group(1)
        text = re.sub('\x00[^\x01]*\x01|\x02[^\x03]*\x03|\x04', '', cur)
        out_lines.append(text)
        linemap.append({'src': cur_src, 'clause': clause, 'ins': cur_tag, 'fn': cur_fn[0]})
        if '\x04' in cur: cur_fn[0] = None
        cur = ''; cur_src = None; cur_tag = None
    for (text, origin) in segs:
        pos = 0
        for ch in text:
            if origin[0] == 'src' and cur_src is None and not ch.isspace():
                src = ex.files[origin[1]][0]
                cur_src = '%s:%d' % (origin[1], line_of(src, origin[2] + pos))
            if origin[0] == 'ins' and cur_tag is None and not ch.isspace() and origin[1] != 'fnmark':
                cur_tag = origin[1]
            if ch == '\n': flush()
            else: cur += ch
            pos += 1
    if cur: flush()
    # fn ranges in output: best effort by scanning for "fn name" lines from source
    with open(out_path, 'w') as f:
        f.write('\n'.join(out_lines) + '\n')
    meta = dict(unit=unit['name'], cfg=cfg, linemap=linemap, rewrites=ex.rewrites, dropped=ex.dropped,
                inserted=ex.inserted, fns=ex.fn_meta, inherits=ex.inherits, skip_bodies=sorted(ex.skip_bodies))
    with open(out_path + '.map.json', 'w') as f:
        json.dump(meta, f, indent=1)
    return meta

if __name__ == '__main__':
    import importlib.util
    spec_path, repo, out = sys.argv[1], sys.argv[2], sys.argv[3]
    cfg = json.loads(sys.argv[4]) if len(sys.argv) > 4 else {'forbid_unsafe': False}
    sp = importlib.util.spec_from_file_location('unit', spec_path)
    mod = importlib.util.module_from_spec(sp); sp.loader.exec_module(mod)
    try:
        meta = build_unit(mod.UNIT, repo, cfg, out)
    except ExtractError as e:
        print('EXTRACT-ERROR:', e); sys.exit(2)
    print('wrote', out, 'rewrites:', len(meta['rewrites']), 'inserted clauses:', len(meta['inserted']))
