#!/usr/bin/env python3
"""V-lex: the text `logos_codegen::generate` emits for a corpus definition -> a Verus unit.

The generated `impl Logos for <Def>` is obtained on every run from /repo's working tree by running the repository's
own `logos-cli` (a thin wrapper around `logos_codegen::generate`, the function `#[derive(Logos)]` calls) on the enum
item copied byte for byte from the K-lex corpus (kani/lex/src/defs/*.rs).  The token stream it prints is then edited
by the closed list of rewrites below (each instance is recorded in `rewrites`), contracts are inserted, and the
result is appended to the V-src unit (the runtime crate with its contracts), so that the generated `lex` is checked
against the very trait contract LEX and the `LexerInternal` preconditions that V-src proves the runtime *from*.

Rewrites (everything else is the emitted token stream, token for token):
  L1  the two local `macro_rules!` (`_fast_loop`, `_take_action`) are expanded by parameter substitution
      (what rustc does; Verus's syntax macro cannot put loop invariants inside a macro_rules body);
  L2  a labelled block  'l: { B }  becomes  'l: loop { B break 'l; }  (Verus: "block with label" unsupported);
  L3  enums declared inside function bodies (`LogosLeaf`, `LogosState`, per-state `LogosNextState`) are hoisted to
      module level, the per-state ones renamed `LogosNextState_<state>` (Verus: derive impls inside a body unsupported);
  L4  `#[derive(..)]` lists are reduced to Clone/Copy; `#[inline]`, `#[automatically_derived]` are dropped;
  L5  `-> T` of a function under contract is written `-> (r: T)`;
  L6  for a `str` definition `type Source = str` is replaced by `[u8]` ONLY when asked (bytes_view=True): this
      drops exactly the char-boundary conjuncts of the invariant (they stay bounded, C04) - reported in the evidence.
Insertions: requires/ensures/decreases on `_make_error`, `_get_action` and every state function; invariant/decreases on
the loops of the expanded `_fast_loop` and on the state-machine `loop`; one `proof { }` block at function entry.
"""
import os, re, subprocess, json, sys, hashlib

class LexGenError(Exception):
    pass

# --------------------------------------------------------------------------------------------------
# tokens

PUNCT = set('+-*/%^&|<>=.:!?@~$#,;')
OPEN = {'(': ')', '[': ']', '{': '}'}
CLOSE = {')': '(', ']': '[', '}': '{'}

def tokenize(s):
    toks = []
    i, n = 0, len(s)
    while i < n:
        c = s[i]
        if c.isspace(): i += 1; continue
        if c == '/' and s.startswith('//', i):
            j = s.find('\n', i); i = n if j < 0 else j; continue
        if c == '/' and s.startswith('/*', i):
            j = s.find('*/', i); i = n if j < 0 else j + 2; continue
        m = re.match(r'(b?r)(#*)"', s[i:i + 40])
        if m and (i == 0 or not (s[i - 1].isalnum() or s[i - 1] == '_')):
            close = '"' + m.group(2)
            j = s.find(close, i + len(m.group(0)))
            if j < 0: raise LexGenError('unterminated raw string')
            j += len(close); toks.append(s[i:j]); i = j; continue
        if c == '"' or (c == 'b' and s.startswith('b"', i)):
            j = i + (2 if c == 'b' else 1)
            while j < n and s[j] != '"':
                if s[j] == '\\': j += 1
                j += 1
            j += 1; toks.append(s[i:j]); i = j; continue
        if c == "'" or (c == 'b' and s.startswith("b'", i)):
            k = i + (2 if c == 'b' else 1)
            if k < n and s[k] == '\\':
                j = s.find("'", k + 2)
                if j < 0: raise LexGenError('unterminated char literal')
                toks.append(s[i:j + 1]); i = j + 1; continue
            m2 = re.match(r"[^'\\\n]'", s[k:k + 6])
            if m2:
                j = k + len(m2.group(0)); toks.append(s[i:j]); i = j; continue
            if c == "'":
                m3 = re.match(r"'[A-Za-z_][A-Za-z0-9_]*", s[i:])
                if not m3: raise LexGenError('stray quote at %d' % i)
                toks.append(m3.group(0)); i += len(m3.group(0)); continue
        if c.isalnum() or c == '_':
            m4 = re.match(r'[A-Za-z0-9_]+(\.[0-9]+[A-Za-z0-9_]*)?', s[i:]) if c.isdigit() else re.match(r'[A-Za-z0-9_]+', s[i:])
            toks.append(m4.group(0)); i += len(m4.group(0)); continue
        if c in OPEN or c in CLOSE:
            toks.append(c); i += 1; continue
        if c in PUNCT:
            j = i
            while j < n and s[j] in PUNCT and s[j] not in ',;#$': j += 1
            if j == i: j = i + 1
            toks.append(s[i:j]); i = j; continue
        raise LexGenError('unexpected character %r at %d' % (c, i))
    return toks

def match(toks, i):
    """toks[i] is an opening delimiter -> index of the matching close"""
    depth = 0
    for j in range(i, len(toks)):
        t = toks[j]
        if t in OPEN: depth += 1
        elif t in CLOSE:
            depth -= 1
            if depth == 0: return j
    raise LexGenError('unbalanced delimiter at token %d' % i)

def find_seq(toks, seq, start=0, end=None):
    end = len(toks) if end is None else end
    L = len(seq)
    for i in range(start, end - L + 1):
        if toks[i:i + L] == seq: return i
    return -1

# --------------------------------------------------------------------------------------------------
# obtaining the generated text

def enum_item(defs_src, name):
    """copy `#[derive(Logos..)] ... enum <name> { .. }` (with all its attributes) from a corpus file, byte for byte"""
    m = re.search(r'\benum\s+%s\b' % re.escape(name), defs_src)
    if not m: raise LexGenError('corpus enum %s not found' % name)
    # walk back over attributes / visibility
    start = m.start()
    head = defs_src[:start]
    lines = head.split('\n')
    k = len(lines) - 1            # the (possibly empty) text before `enum` on its line
    pos = start - len(lines[k])
    if lines[k].strip() not in ('', 'pub', 'pub(crate)'): raise LexGenError('unexpected text before enum %s' % name)
    k -= 1
    while k >= 0:
        t = lines[k].strip()
        if t.startswith('#[') or t.startswith('//') or (t and not t.endswith(';') and not t.endswith('}') and _in_attr(lines, k)):
            pos -= len(lines[k]) + 1; k -= 1
        else: break
    # body
    ob = defs_src.index('{', m.end())
    depth = 0; j = ob
    toks_end = None
    # brace match on raw text, string/char aware through tokenize of the tail would be slower: corpus enums keep braces
    # inside literals balanced or escaped; verify by tokenizing the result
    i = ob
    in_str = False
    while i < len(defs_src):
        c = defs_src[i]
        if c == '"' and not in_str:
            # skip string (handles r"..", r#".."# conservatively by scanning to the closing quote on the same rule as tokenize)
            mm = re.match(r'"', defs_src[i:])
            jj = i + 1
            hashes = ''
            b = i - 1
            while b >= 0 and defs_src[b] == '#': hashes += '#'; b -= 1
            raw = b >= 0 and defs_src[b] == 'r'
            if raw:
                jj = defs_src.index('"' + hashes, i + 1) + 1 + len(hashes)
            else:
                while defs_src[jj] != '"':
                    if defs_src[jj] == '\\': jj += 1
                    jj += 1
                jj += 1
            i = jj; continue
        if c == "'" :
            mm = re.match(r"'(\\.[^']*|[^'\\])'", defs_src[i:i + 12])
            if mm: i += len(mm.group(0)); continue
        if c == '/' and defs_src.startswith('//', i):
            i = defs_src.index('\n', i); continue
        if c == '{': depth += 1
        elif c == '}':
            depth -= 1
            if depth == 0: toks_end = i + 1; break
        i += 1
    if toks_end is None: raise LexGenError('unterminated enum %s' % name)
    text = defs_src[pos:toks_end]
    tokenize(text)      # sanity
    return text

def _in_attr(lines, k):
    # a continuation line of a multi-line attribute: some earlier line opens `#[` that is not yet closed
    depth = 0
    for j in range(k, max(-1, k - 40), -1):
        depth += lines[j].count(']') - lines[j].count('[')
        if lines[j].strip().startswith('#[') and depth <= 0: return True
        if lines[j].strip() == '' : return False
    return False

def build_cli(repo, workdir, features=()):
    """build /repo's logos-cli from the working tree (offline); returns the binary path"""
    # one target directory per (repository path, feature set): cargo keys path packages by workspace-relative paths, so two
    # checkouts sharing a target directory are told apart by file mtimes only
    rp = hashlib.sha1(os.path.realpath(repo).encode()).hexdigest()[:8]
    tdir = os.path.join(workdir, 'vlex-target-%s' % rp + ('-' + '-'.join(features) if features else ''))
    cmd = ['cargo', 'build', '-q', '-p', 'logos-cli', '--offline', '--target-dir', tdir]
    if features: cmd += ['--features', ','.join(features)]
    env = dict(os.environ, CARGO_NET_OFFLINE='true')
    p = subprocess.run(cmd, cwd=repo, capture_output=True, text=True, env=env)
    if p.returncode != 0:
        raise LexGenError('building logos-cli failed: ' + p.stderr[-3000:])
    return os.path.join(tdir, 'debug', 'logos-cli')

def run_cli(cli, enum_text, workdir, tag):
    os.makedirs(workdir, exist_ok=True)
    inp = os.path.join(workdir, 'vlex_in_%s.rs' % tag)
    with open(inp, 'w') as f: f.write(enum_text + '\n')
    p = subprocess.run([cli, inp], capture_output=True, text=True)
    if p.returncode != 0:
        raise LexGenError('logos-cli failed on %s: %s' % (tag, (p.stderr or p.stdout)[-2000:]))
    out = p.stdout
    if 'compile_error' in out:
        raise LexGenError('the derive rejected %s: %s' % (tag, out[:1500]))
    return out

# --------------------------------------------------------------------------------------------------
# transformation

WF = ('({x}.token_start <= {x}.token_end && {x}.token_end <= {x}.source.sview().len() && '
      '{x}.source.boundary({x}.token_start as int) && {x}.source.boundary({x}.token_end as int))')
LEN = '{x}.source.sview().len()'

class Unit:
    def __init__(self, name, raw, bytes_view=False, callbacks=None):
        self.name = name
        self.toks = tokenize(raw)
        self.rewrites = []
        self.inserted = []          # clause ids
        self.fns = {}               # fn key -> dict
        self.bytes_view = bytes_view
        self.callbacks = callbacks or {}
        self.hoisted = []
        self.state_machine = False
        self.entry_for = set()
        self.canary = None
        self.assumed = []
        self.env = []

    # ---- L4
    def reduce_attrs(self):
        t = self.toks; out = []; i = 0
        while i < len(t):
            if t[i] == '#' and i + 1 < len(t) and t[i + 1] == '[':
                j = match(t, i + 1)
                inner = t[i + 2:j]
                if inner and inner[0] in ('inline', 'automatically_derived', 'allow', 'doc'):
                    self.rewrites.append('L4 dropped attribute #[%s]' % ' '.join(inner)[:60]); i = j + 1; continue
                if inner and inner[0] == 'derive':
                    lst = ' '.join(inner[2:-1])
                    keep = [d for d in ('Clone', 'Copy') if re.search(r'\b%s\b' % d, lst)]
                    if sorted(x.strip().split(' ')[-1] for x in lst.split(',') if x.strip()) != sorted(keep):
                        self.rewrites.append('L4 #[derive(%s)] reduced to (%s)' % (lst[:80], ', '.join(keep)))
                    if keep: out += ['#', '[', 'derive', '('] + sum(([k, ','] for k in keep), [])[:-1] + [')', ']']
                    i = j + 1; continue
            out.append(t[i]); i += 1
        self.toks = out

    # ---- L1
    def expand_macros(self):
        t = self.toks
        macros = {}
        while True:
            i = find_seq(t, ['macro_rules', '!'])
            if i < 0: break
            name = t[i + 2]
            ob = i + 3
            if t[ob] != '{': raise LexGenError('macro_rules %s: unexpected shape' % name)
            cb = match(t, ob)
            inner = t[ob + 1:cb]
            if inner[0] != '(': raise LexGenError('macro_rules %s: unexpected matcher' % name)
            pe = match(inner, 0)
            params = [inner[k + 1] for k in range(1, pe) if inner[k] == '$']
            if inner[pe + 1] != '=>' or inner[pe + 2] != '{': raise LexGenError('macro_rules %s: unexpected rule' % name)
            be = match(inner, pe + 2)
            rest = [x for x in inner[be + 1:] if x != ';']
            if rest: raise LexGenError('macro_rules %s: more than one rule' % name)
            macros[name] = (params, inner[pe + 3:be])
            del t[i:cb + 1]
        n_exp = 0
        for name, (params, body) in macros.items():
            while True:
                i = find_seq(t, [name, '!', '('])
                if i < 0: break
                ce = match(t, i + 2)
                args = [a for a in t[i + 3:ce] if a != ',']
                if len(args) != len(params): raise LexGenError('macro %s: arity' % name)
                sub = dict(zip(params, args))
                exp = []; k = 0
                while k < len(body):
                    if body[k] == '$':
                        if body[k + 1] not in sub: raise LexGenError('macro %s: unknown parameter $%s' % (name, body[k + 1]))
                        exp.append(sub[body[k + 1]]); k += 2
                    else:
                        exp.append(body[k]); k += 1
                t[i:ce + 1] = exp
                n_exp += 1
        self.rewrites.append('L1 expanded %d invocations of the local macros %s by parameter substitution' % (n_exp, sorted(macros)))
        self.macros = macros

    # ---- L8
    def unit_closure_params(self):
        """`|()| E` (the variant constructor closure the generator emits for unit variants with a callback) -> `|_vlex_u: ()| E`
        (Verus: "only variables are supported here, not general patterns")"""
        t = self.toks; n = 0; i = 0
        while i < len(t) - 3:
            if t[i] == '|' and t[i + 1] == '(' and t[i + 2] == ')' and t[i + 3] == '|':
                t[i:i + 4] = ['|', '_vlex_u', ':', '(', ')', '|']; n += 1
            i += 1
        if n: self.rewrites.append('L8 %d closures `|()| E` written `|_vlex_u: ()| E`' % n)

    # ---- L9
    def eta_expand_constructors(self):
        """`CallbackRetVal::<'s, T, D>::construct(cb_result, D::V)` -> `.. construct(cb_result, |_vlex_v: T| D::V(_vlex_v))`
        (Verus: "using a datatype constructor as a function value" unsupported); eta-expansion, same function"""
        t = self.toks; n = 0; i = 0
        while True:
            i = find_seq(t, ['CallbackRetVal', '::', '<'], i)
            if i < 0: break
            # generic args up to the matching '>'
            j = i + 3; d = 1; args = [[]]
            while d > 0:
                x = t[j]
                if x == '<': d += 1
                elif x == '>': d -= 1
                elif x == '>>': d -= 2
                if d <= 0: break
                if x == ',' and d == 1: args.append([])
                else: args[-1].append(x)
                j += 1
            k = find_seq(t, ['construct', '(', 'cb_result', ','], j, j + 8)
            if k >= 0 and len(args) >= 3:
                a = k + 4
                ce = match(t, k + 1)
                arg = t[a:ce]
                if len(arg) == 3 and arg[1] == '::' and arg[0][0].isupper() and '|' not in arg:
                    t[a:ce] = ['|', '_vlex_v', ':'] + args[1] + ['|'] + arg + ['(', '_vlex_v', ')']; n += 1
            i = j
        if n: self.rewrites.append('L9 %d variant constructors passed as functions eta-expanded (`D::V` -> `|v: T| D::V(v)`)' % n)

    # ---- user callbacks and user types (corpus code, not repository code): assumed contracts
    CB_REQ = [WF.format(x='old(lex)'), 'old(lex).token_start < old(lex).token_end']
    CB_ENS = [WF.format(x='final(lex)'),
              'final(lex).source == old(lex).source && final(lex).is_prefix == old(lex).is_prefix',
              'final(lex).token_start == old(lex).token_start',
              'old(lex).token_end <= final(lex).token_end']

    def user_environment(self, sources):
        """label callbacks `let cb_result = NAME(lex);` and the user types named by `type Extras` / `type Error`:
        - every callback NAME gets an external_body stub whose signature is copied from the corpus file and whose contract is the
          ASSUMED callback contract (wf preserved, source/is_prefix/token_start unchanged, token_end may only grow - what any
          callback written against the public Lexer API satisfies by the V-src contracts of bump/extras access);
        - the user types are copied from the corpus (derives reduced), `Default` for the error type is an external_body impl,
          `impl From<..> for <Error>` items are copied."""
        t = self.toks
        names = []
        i = 0
        while True:
            i = find_seq(t, ['let', 'cb_result', '='], i)
            if i < 0: break
            j = i + 3; path = []
            while t[j] != '(' and t[j] != '{': path.append(t[j]); j += 1
            if t[j] == '(' and t[j + 1] == 'lex' and t[j + 2] == ')' and path:
                if path != ['logos', '::', 'skip'] and path != ['::', 'logos', '::', 'skip']:
                    if len(path) != 1: raise LexGenError('callback path %s: only plain function names are supported' % ' '.join(path))
                    if path[0] not in names: names.append(path[0])
            i = j
        err_cb = None
        k = find_seq(t, ['let', 'error', '='])
        if k >= 0 and t[k + 4] == '(' and t[k + 5] == 'lex':
            err_cb = t[k + 3]
            if err_cb not in names: names.append(err_cb)
        self_ty = self.enum_name()
        out = []
        allsrc = '\n'.join(sources)
        # user types
        for assoc in ('Extras', 'Error'):
            k = find_seq(t, ['type', assoc, '='])
            if k < 0: continue
            e = t.index(';', k)
            ty = t[k + 3:e]
            if ty == ['(', ')'] or len(ty) != 1 or ty[0] in ('u8', 'u16', 'u32', 'u64', 'usize', 'bool'): continue
            name = ty[0]
            m = re.search(r'pub (struct|enum) %s\b' % re.escape(name), allsrc)
            if not m: raise LexGenError('user type %s not found in the corpus sources' % name)
            ob = allsrc.index('{', m.end()); d = 0; e2 = ob
            while True:
                if allsrc[e2] == '{': d += 1
                elif allsrc[e2] == '}':
                    d -= 1
                    if d == 0: break
                e2 += 1
            item = re.sub(r'#\[default\]\s*', '', allsrc[m.start():e2 + 1])
            out += ['#', '[', 'derive', '(', 'Clone', ')', ']'] + tokenize(item) + ['\n']
            self.rewrites.append('env: user type %s copied from the corpus (derive reduced to Clone)' % name)
            if assoc == 'Error':
                out += tokenize('impl ::core::default::Default for %s { #[verifier::external_body] fn default() -> Self { unimplemented!() } }' % name) + ['\n']
                for fm in re.finditer(r'impl From<(\w+)> for %s \{' % re.escape(name), allsrc):
                    ob = fm.end() - 1; d = 0; e3 = ob
                    while True:
                        if allsrc[e3] == '{': d += 1
                        elif allsrc[e3] == '}':
                            d -= 1
                            if d == 0: break
                        e3 += 1
                    out += tokenize(allsrc[fm.start():e3 + 1].replace('fn from', '#[verifier::external_body] fn from', 1)) + ['\n']
                    self.rewrites.append('env: `impl From<%s> for %s` copied from the corpus, body external (vstd attaches its own spec to From::from)' % (fm.group(1), name))
        # callbacks
        for nm in names:
            m = re.search(r'fn %s\s*(<[^>]*>)?\s*\(\s*\w+\s*:\s*&mut\s+Lexer<[^)]*\)\s*(->\s*([^{]+?))?\s*\{' % re.escape(nm), allsrc)
            if not m: raise LexGenError('callback %s not found in the corpus sources' % nm)
            ret = (m.group(3) or '()').strip()
            key = '%s::callback[%s]' % (self.name, nm)
            hdr = tokenize("#[verifier::external_body] fn %s<'s>(lex: &mut ::logos::Lexer<'s, %s>) -> (r: %s)" % (nm, self_ty, ret))
            req = list(self.CB_REQ) if nm != err_cb else [WF.format(x='old(lex)')]
            ens = list(self.CB_ENS) if nm != err_cb else [WF.format(x='final(lex)'), self.CB_ENS[1], 'final(lex).token_start == old(lex).token_start && final(lex).token_end == old(lex).token_end']
            body = ['\n', 'requires', '\n'] + sum(([r_ + ',', '\n'] for r_ in req), []) + ['ensures', '\n'] + sum(([e_ + ',', '\n'] for e_ in ens), [])
            out += hdr + body + tokenize('{ unimplemented!() }') + ['\n']
            self.assumed.append('user callback %s: assumed contract (wf preserved; source, is_prefix, token_start unchanged; token_end may only grow)' % nm)
        self.env = out

    def enum_name(self):
        t = self.toks
        k = find_seq(t, ['impl'])
        while t[k] != 'for': k += 1
        return t[k + 1]

    # ---- L2
    def labelled_blocks(self):
        t = self.toks; i = 0; n = 0
        while i < len(t) - 2:
            if t[i].startswith("'") and not t[i].endswith("'") and t[i + 1] == ':' and t[i + 2] == '{':
                ce = match(t, i + 2)
                t[ce:ce] = ['break', t[i], ';']
                t[i + 2:i + 2] = ['loop']
                n += 1
            i += 1
        if n: self.rewrites.append("L2 %d labelled blocks 'l: { B } rewritten to 'l: loop { B break 'l; }" % n)

    # ---- helpers over fn items
    def fn_items(self, lo=0, hi=None):
        """yield (name, i_fn, i_open_paren, i_body_open, i_body_close) for `fn name ..(..) .. {..}` in toks[lo:hi], all depths"""
        t = self.toks; hi = len(t) if hi is None else hi
        i = lo
        while i < hi:
            if t[i] == 'fn' and re.match(r'[A-Za-z_]\w*$', t[i + 1]):
                name = t[i + 1]
                k = i + 2
                if t[k] == '<':
                    d = 0
                    while True:
                        if t[k] == '<': d += 1
                        elif t[k] == '>': d -= 1
                        elif t[k] == '>>': d -= 2
                        k += 1
                        if d <= 0: break
                if t[k] != '(': raise LexGenError('fn %s: unexpected header' % name)
                pe = match(t, k)
                b = pe + 1
                while t[b] != '{':
                    if t[b] in OPEN: b = match(t, b)
                    b += 1
                be = match(t, b)
                yield (name, i, k, b, be)
                i += 2
            else:
                i += 1

    # ---- L3
    def hoist_enums(self):
        t = self.toks
        # the body of `fn lex`
        lex = [f for f in self.fn_items() if f[0] == 'lex']
        if len(lex) != 1: raise LexGenError('expected exactly one fn lex')
        moved = []
        while True:
            lex = [f for f in self.fn_items() if f[0] == 'lex'][0]
            lo, hi = lex[3], lex[4]
            # innermost enclosing fn per position
            found = None
            i = lo
            while i < hi:
                if t[i] == 'enum' and re.match(r'[A-Za-z_]\w*$', t[i + 1]) and t[i + 2] == '{':
                    found = i; break
                i += 1
            if found is None: break
            i = found
            name = t[i + 1]
            ce = match(t, i + 2)
            start = i
            # attributes in front
            while start >= 5 and t[start - 1] == ']':
                ob = start - 1
                d = 0
                while True:
                    if t[ob] == ']': d += 1
                    elif t[ob] == '[': d -= 1
                    if d == 0: break
                    ob -= 1
                if t[ob - 1] == '#': start = ob - 1
                else: break
            # enclosing fn other than lex?
            encl = None
            for f in self.fn_items(lo + 1, hi):
                if f[3] < i < f[4]: encl = f
            item = t[start:ce + 1]
            if encl is not None:
                new = '%s_%s' % (name, encl[0])
                # rename inside the enclosing fn body (the enum item itself included)
                for k in range(encl[3], encl[4] + 1):
                    if t[k] == name: t[k] = new
                item = t[start:ce + 1]
                self.rewrites.append('L3 enum %s of fn %s hoisted to module level as %s' % (name, encl[0], new))
            elif self.state_machine and name == 'LogosNextState':
                raise LexGenError('unexpected LogosNextState in state-machine output')
            else:
                self.rewrites.append('L3 enum %s of fn lex hoisted to module level' % name)
            moved.append(list(item))
            del t[start:ce + 1]
        self.hoisted = moved

    def rename_arm_items(self):
        """state-machine output: the nested items `fn loop_test` / `const TABLE` of different match arms share one path
        (Verus names nested items by the enclosing function only) -> renamed per arm"""
        if not self.state_machine: return
        t = self.toks
        i_loop = find_seq(t, ['loop', '{', 'match', 'state', '{'])
        if i_loop < 0: raise LexGenError('state-machine loop not found')
        m_ob = i_loop + 4; m_cb = match(t, m_ob)
        k = m_ob + 1; n = 0
        while k < m_cb:
            if t[k:k + 2] == ['LogosState', '::'] and t[k + 3] == '=>' and t[k + 4] == '{':
                st = t[k + 2]; ce = match(t, k + 4)
                declared = set()
                for j in range(k + 4, ce):
                    if t[j] in ('fn', 'const') and t[j + 1] in ('loop_test', 'TABLE'): declared.add(t[j + 1])
                for j in range(k + 4, ce):
                    if t[j] in declared: t[j] = '%s_%s' % (t[j], st); n += 1
                k = ce + 1
            else:
                k += 1
        if n: self.rewrites.append('L3 nested items loop_test / TABLE of the state-machine match arms renamed <name>_<State> (%d tokens)' % n)

    def make_bytes_view(self):
        t = self.toks
        i = find_seq(t, ['type', 'Source', '='])
        if i < 0: raise LexGenError('type Source not found')
        j = t.index(';', i)
        old = ' '.join(t[i + 3:j])
        self.source_ty = old
        if self.bytes_view and old.replace(' ', '').endswith('str'):
            t[i + 3:j] = ['[', 'u8', ']']
            self.rewrites.append('L6 `type Source = %s` replaced by `[u8]`: the char-boundary conjuncts of the invariant are NOT proved for this definition' % old)
            self.source_ty = '[u8] (was str)'

    # ---- L7
    def rehead_lex(self, lex_req, lex_ens):
        """impl Logos for D { fn lex(..) -> .. {BODY} }  ->  the impl method keeps its signature but its body becomes
        external (`unimplemented!()`), and BODY moves, untouched, into a free function `lex_body` with the same signature
        (Self -> D) carrying the trait-level contract LEX."""
        t = self.toks
        i_impl = find_seq(t, ['impl'])
        if t[i_impl + 1] == '<':
            k = i_impl + 1; d = 0
            while True:
                if t[k] == '<': d += 1
                elif t[k] == '>': d -= 1
                k += 1
                if d == 0: break
            generics = t[i_impl + 1:k]
        else:
            generics = []
        k = i_impl
        while t[k] != 'for': k += 1
        ob_impl = k
        while t[ob_impl] != '{': ob_impl += 1
        self_ty = t[k + 1:ob_impl]
        if len(self_ty) != 1: raise LexGenError('generic or path-qualified token type: not supported by V-lex')
        cb_impl = match(t, ob_impl)
        lex = [f for f in self.fn_items(ob_impl + 1, cb_impl) if f[0] == 'lex']
        if len(lex) != 1: raise LexGenError('fn lex not found in the impl')
        (_, i_fn, i_par, i_ob, i_cb) = lex[0]
        sig = [self_ty[0] if x == 'Self' else x for x in t[i_par:i_ob]]
        body = t[i_ob:i_cb + 1]
        pe = match(sig, 0)
        if sig[pe + 1] != '->': raise LexGenError('lex: no return type')
        key = '%s::lex_body' % self.name
        contract = self.render_contract(key, [r.replace('lexer', 'lex') for r in lex_req], [e.replace('lexer', 'lex') for e in lex_ens], None)
        free = ['fn', 'lex_body'] + generics + sig[:pe + 2] + ['(', 'r', ':'] + sig[pe + 2:] + [')'] + contract + body
        t[i_ob:i_cb + 1] = ['{', 'unimplemented', '!', '(', ')', '}']
        t[i_fn:i_fn] = ['#', '[', 'verifier', '::', 'external_body', ']']
        cb_impl = match(t, ob_impl)
        t[cb_impl + 1:cb_impl + 1] = ['\n'] + free
        self.fns[key] = dict(kind='lex_body')
        self.rewrites.append('L7 the body of `impl Logos for %s`::lex moved, untouched, into a free function `lex_body` carrying the trait-level '
                             'contract LEX; the impl method itself is external_body (Verus rejects the impl calling functions that '
                             'depend on the impl as a definition cycle)' % self_ty[0])

    # ---- analysis of the state functions (tail-call) ----------------------------------------------------------------
    def analyse(self):
        t = self.toks
        lex = [f for f in self.fn_items() if f[0] == 'lex'][0]
        body = t[lex[3]:lex[4] + 1]
        self.state_machine = find_seq(body, ['let', 'mut', 'state', '=']) >= 0
        names = [f[0] for f in self.fn_items(lex[3] + 1, lex[4])]
        self.state_fns = [n for n in names if re.match(r'state\d+$', n)]
        if self.state_machine:
            i = find_seq(t, ['let', 'mut', 'state', '=', 'LogosState', '::'])
            self.root = t[i + 6]
            e = find_seq(t, ['enum', 'LogosState', '{'])
            ce = match(t, e + 2)
            self.state_fns = [x for x in t[e + 3:ce] if x != ',']
        else:
            # the tail expression of lex: <root>(lex, lex.offset(), None)
            k = lex[4] - 1
            while t[k] != ')': k -= 1
            d = 0
            while True:
                if t[k] == ')': d += 1
                elif t[k] == '(': d -= 1
                if d == 0: break
                k -= 1
            self.root = t[k - 1]
            if self.root not in self.state_fns: raise LexGenError('cannot identify the root state function')

    def late_accept(self, lo, hi):
        """does toks[lo:hi] (a state body) end the token one byte back (`lex.end(offset - 1)`, regex-automata's delayed match)?"""
        return find_seq(self.toks, ['lex', '.', 'end', '(', 'offset', '-', '1', ')'], lo, hi) >= 0

    def eoi_targets(self):
        """states entered from an end-of-input branch (`else { .. offset += 1; <transition> }` after a failed read):
        the call sites at which `offset` may be len + 1"""
        t = self.toks; out = set()
        # an EOI transition is the only transition that is not guarded by `if let Some(byte) = other {`: find transitions
        # inside the else-branch of `if let _Option::Some(byte) = other { .. } else { .. }`
        i = 0
        while True:
            i = find_seq(t, ['if', 'let', '_Option', '::', 'Some', '(', 'byte', ')', '=', 'other', '{'], i)
            if i < 0: break
            ce = match(t, i + 10)
            if t[ce + 1] == 'else' and t[ce + 2] == '{':
                ee = match(t, ce + 2)
                seg = t[ce + 2:ee + 1]
                for k in range(len(seg)):
                    if self.state_machine:
                        if seg[k:k + 4] == ['state', '=', 'LogosState', '::']: out.add(seg[k + 4])
                    else:
                        if seg[k] == 'return' and re.match(r'state\d+$', seg[k + 1]): out.add(seg[k + 1])
            i = ce
        return out

    def fatal_byte_assertions(self):
        """C02: on the error path (`context` is None when `_get_action` is called) `offset` must be the position of the byte the
        state read last - the first byte at which what was read can no longer be extended.  A ghost copy of `offset` is taken
        right before each `let other = lex.read::<u8>(offset);` and compared right before each `let action = _get_action(..)`."""
        t = self.toks
        edits = []
        read_pat = ['let', 'other', '=', 'lex', '.', 'read', '::']
        i = 0; n = 0
        while True:
            i = find_seq(t, read_pat, i)
            if i < 0: break
            edits.append((i, ['let', 'ghost', 'vlex_read_at', '=', 'offset', ';', '\n'])); i += 1
        i = 0
        while True:
            i = find_seq(t, ['let', 'action', '=', '_get_action', '('], i)
            if i < 0: break
            cid = '%s::fatal-byte[%d]' % (self.name, n); n += 1
            self.inserted.append(cid)
            edits.append((i, ['proof', '{', '\n', '\x00' + cid + '\x01', 'assert', '(', 'context.is_none() ==> offset == vlex_read_at', ')', ';', '\n', '}', '\n']))
            i += 1
        for pos, ins in sorted(edits, key=lambda e: -e[0]):
            t[pos:pos] = ins
        if n: self.rewrites.append('ghost: %d `let ghost vlex_read_at = offset;` before the byte read of each state and %d `assert(context.is_none() ==> offset == vlex_read_at)` before `_get_action` (C02 fatal-byte clause)' % (len(edits) - n, n))

    def read_monotone(self):
        """C20: within one match attempt the offsets passed to `lex.read` never decrease.  A ghost variable `vlex_floor` holds the
        offset of the last read of the attempt (initially the offset the state / the attempt was entered with):
          - before the byte read of a state:  assert(vlex_floor <= offset), then vlex_floor = offset;
          - in the loops of an expanded _fast_loop (whose conditions are reads at `offset`): invariant vlex_floor <= offset and
            vlex_floor = offset at the start of the body;
          - before every transition that continues the attempt (tail call / `state = ..; continue`): assert(vlex_floor <= offset);
          - after a skip (`offset = lex.offset();`) a new attempt starts: vlex_floor = offset.
        Tail-call output: every state function starts with vlex_floor = its `offset` argument, so the per-function facts chain:
        the caller passes an offset >= its last read, the callee reads only at offsets >= its argument."""
        t = self.toks
        edits = []
        n_assert = 0
        def cl(kind):
            nonlocal n_assert
            cid = '%s::read-monotone[%s%d]' % (self.name, kind, n_assert); n_assert += 1
            self.inserted.append(cid)
            return '\x00' + cid + '\x01'
        # 1. declaration
        if self.state_machine:
            i = find_seq(t, ['match', 'state', '{'])
            while i > 0 and t[i] != 'loop': i -= 1
            if i <= 0: raise LexGenError('state-machine loop not found')
            edits.append((i, ['let', 'ghost', 'mut', 'vlex_floor', ':', 'int', '=', 'offset', 'as', 'int', ';', '\n']))
        else:
            lex = [f for f in self.fn_items() if f[0] == 'lex_body'][0]
            for (name, i_fn, i_par, i_ob, i_cb) in self.fn_items(lex[3] + 1, lex[4]):
                if name in self.state_fns:
                    edits.append((i_ob + 1, ['let', 'ghost', 'mut', 'vlex_floor', ':', 'int', '=', 'offset', 'as', 'int', ';', '\n']))
        # 2. byte reads
        i = 0
        while True:
            i = find_seq(t, ['let', 'other', '=', 'lex', '.', 'read', '::'], i)
            if i < 0: break
            edits.append((i, ['proof', '{', '\n', cl('read'), 'assert', '(', 'vlex_floor <= offset', ')', ';', '\n', 'vlex_floor', '=', 'offset', 'as', 'int', ';', '}', '\n']))
            i += 1
        # 3. fast-loop bodies
        i = 0
        while i < len(t) - 1:
            if t[i] == 'while' and t[i + 1] == 'let':
                b = i
                while t[b] != '{':
                    if t[b] in OPEN: b = match(t, b)
                    b += 1
                edits.append((b + 1, ['proof', '{', 'vlex_floor', '=', 'offset', 'as', 'int', ';', '}', '\n']))
            i += 1
        # 4. transitions and the skip restart
        i = 0
        while i < len(t) - 3:
            if self.state_machine:
                if t[i] == 'state' and t[i + 1] == '=' and t[i + 2] in ('LogosState', 'next_state') and t[i - 1] != 'mut':
                    # `state = X; continue;` - a restart is preceded by `context = None;` (expanded _take_action)
                    restart = t[i - 6:i] == ['context', '=', '_Option', '::', 'None', ';']
                    if not restart:
                        edits.append((i, ['proof', '{', '\n', cl('goto'), 'assert', '(', 'vlex_floor <= offset', ')', ';', '\n', '}', '\n']))
            else:
                if t[i] == 'return' and t[i + 1] in self.state_fns and t[i + 2] == '(':
                    restart = t[i - 6:i] == ['context', '=', '_Option', '::', 'None', ';']
                    if not restart:
                        edits.append((i, ['proof', '{', '\n', cl('goto'), 'assert', '(', 'vlex_floor <= offset', ')', ';', '\n', '}', '\n']))
            if t[i:i + 7] == ['offset', '=', 'lex', '.', 'offset', '(', ')'] and t[i + 7] == ';' and t[i - 1] != 'mut':
                edits.append((i + 8, ['proof', '{', 'vlex_floor', '=', 'offset', 'as', 'int', ';', '}', '\n']))
            i += 1
        for pos, ins in sorted(edits, key=lambda e: -e[0]):
            t[pos:pos] = ins
        self.rewrites.append('ghost: `vlex_floor` (offset of the last read of the attempt) with %d read-monotone assertions (C20)' % n_assert)

    # ---- contract insertion ------------------------------------------------------------------------------------------
    def clause(self, cid, text):
        self.inserted.append(cid)
        return ['\x00' + cid + '\x01', text, '\n']

    def contracts_tailcall(self):
        t = self.toks
        eoi = self.eoi_targets()
        self.eoi = eoi
        W = lambda x: WF.format(x=x); L = lambda x: LEN.format(x=x)
        lex = [f for f in self.fn_items() if f[0] == 'lex_body'][0]
        edits = []      # (position, delete_count, tokens)
        for (name, i_fn, i_par, i_ob, i_cb) in self.fn_items(lex[3] + 1, lex[4]):
            hdr = t[i_par:i_ob]
            if name in self.state_fns:
                key = '%s::%s' % (self.name, name)
                bound = '%s + 1' % L('old(lex)') if name in eoi else L('old(lex)')
                req = [W('old(lex)')]
                if name == self.root:
                    req += ['old(lex).token_start <= offset && offset <= %s' % bound,
                            'offset == old(lex).token_start ==> old(lex).token_end == old(lex).token_start && context.is_none()']
                else:
                    req += ['old(lex).token_start < offset && offset <= %s' % bound]
                late = self.late_accept(i_ob, i_cb)
                if late:
                    # the state stores `offset - 1` as the token end: a non-empty token needs token_start < offset - 1
                    req += ['old(lex).token_start + 1 < offset']
                req += ['context.is_some() ==> old(lex).token_start < old(lex).token_end']
                ens = self.state_post()
                dec = ['%s - old(lex).token_start' % L('old(lex)'), '%s + 1 - offset' % L('old(lex)')]
                ins = self.render_contract(key, req, ens, dec)
                self.fns[key] = dict(kind='state', root=(name == self.root), eoi_target=(name in eoi), late_accept=late)
                # result name
                arrow = i_par + 1 + hdr[1:].index('->') if '->' in hdr else None
                pe = match(t, i_par)
                if t[pe + 1] != '->': raise LexGenError('%s: no return type' % name)
                edits.append((pe + 2, 0, ['(', 'r', ':']))
                edits.append((i_ob, 0, [')'] + ins))
                edits += self.loop_invariants(key, i_ob, i_cb, name in eoi)
            else:
                edits += self.helper_contract(name, i_par, i_ob)
        for pos, dl, ins in sorted(edits, key=lambda e: -e[0]):
            t[pos:pos + dl] = ins

    def contracts_state_machine(self):
        t = self.toks
        eoi = self.eoi_targets(); self.eoi = eoi
        W = lambda x: WF.format(x=x); L = lambda x: LEN.format(x=x)
        lex = [f for f in self.fn_items() if f[0] == 'lex_body'][0]
        edits = []
        for (name, i_fn, i_par, i_ob, i_cb) in self.fn_items(lex[3] + 1, lex[4]):
            edits += self.helper_contract(name, i_par, i_ob)
        i_loop = find_seq(t, ['loop', '{', 'match', 'state', '{'], lex[3], lex[4])
        if i_loop < 0: raise LexGenError('state-machine loop not found')
        key = '%s::lex_body' % self.name
        inv = [W('lex'),
               'lex.source == old(lex).source && lex.is_prefix == old(lex).is_prefix',
               'old(lex).token_end <= lex.token_start',
               'context.is_some() ==> lex.token_start < lex.token_end',
               '%s < usize::MAX' % L('lex'),
               'vlex_floor <= offset']
        arms = {}
        m_ob0 = i_loop + 4; m_cb0 = match(t, m_ob0)
        k = m_ob0 + 1
        while k < m_cb0:
            if t[k:k + 2] == ['LogosState', '::'] and t[k + 3] == '=>' and t[k + 4] == '{':
                ce = match(t, k + 4); arms[t[k + 2]] = (k + 4, ce); k = ce + 1
            else: k += 1
        for st in self.state_fns:
            bound = '%s + 1' % L('lex') if st in eoi else L('lex')
            if st == self.root:
                p = ('lex.token_start <= offset && offset <= %s && (offset == lex.token_start ==> lex.token_end == lex.token_start && context.is_none())' % bound)
            else:
                p = 'lex.token_start < offset && offset <= %s' % bound
            if st in arms and self.late_accept(*arms[st]):
                p += ' && lex.token_start + 1 < offset'
            inv.append('(state is %s) ==> (%s)' % (st, p))
        self.fns['%s::lex_body' % self.name]['states'] = list(self.state_fns)
        ins = ['\n', 'invariant', '\n']
        for k, c in enumerate(inv): ins += self.clause('%s.loop-main.invariant[%d]' % (key, k), c + ',')
        ins += ['decreases', '\n'] + self.clause('%s.loop-main.decreases' % key, '%s - lex.token_start, %s + 1 - offset,' % (L('lex'), L('lex')))
        edits.append((i_loop + 1, 0, ins))
        # arms
        m_ob = i_loop + 4; m_cb = match(t, m_ob)
        k = m_ob + 1
        while k < m_cb:
            if t[k:k + 2] == ['LogosState', '::'] and t[k + 3] == '=>' and t[k + 4] == '{':
                st = t[k + 2]; ce = match(t, k + 4)
                edits += self.loop_invariants('%s[%s]' % (key, st), k + 4, ce, st in eoi)
                k = ce + 1
            else:
                k += 1
        for pos, dl, ins in sorted(edits, key=lambda e: -e[0]):
            t[pos:pos + dl] = ins

    def helper_contract(self, name, i_par, i_ob):
        t = self.toks
        W = lambda x: WF.format(x=x); L = lambda x: LEN.format(x=x)
        edits = []
        if name == '_get_action':
            key = '%s::_get_action' % self.name
            req = [W('old(lex)'),
                   'context.is_some() ==> old(lex).token_start < old(lex).token_end',
                   'context.is_none() ==> offset <= %s && old(lex).token_start + 1 <= %s' % (L('old(lex)'), L('old(lex)'))]
            ens = [W('final(lex)'),
                   'final(lex).source == old(lex).source && final(lex).is_prefix == old(lex).is_prefix',
                   'final(lex).token_start == old(lex).token_start',
                   'final(lex).token_start < final(lex).token_end',
                   # C02: without an accepted match the item ends at max(offset, start + 1), moved forward to the next boundary
                   'context.is_none() ==> ({ let o = if offset > old(lex).token_start + 1 { offset as int } else { old(lex).token_start + 1 }; '
                   'o <= final(lex).token_end && final(lex).i_boundary(final(lex).token_end as int) && '
                   '(forall|j: int| o <= j < final(lex).token_end ==> !final(lex).i_boundary(j)) })']
            ins = self.render_contract(key, req, ens, None)
            self.fns[key] = dict(kind='get_action')
            pe = match(t, i_par)
            edits.append((pe + 2, 0, ['(', 'r', ':']))
            edits.append((i_ob, 0, [')'] + ins))
        elif name == '_make_error':
            key = '%s::_make_error' % self.name
            req = [W('old(lex)')]
            ens = [W('final(lex)'),
                   'final(lex).source == old(lex).source && final(lex).is_prefix == old(lex).is_prefix',
                   'final(lex).token_start == old(lex).token_start && final(lex).token_end == old(lex).token_end']
            i_cb = match(t, i_ob)
            if 'lex' not in t[i_ob:i_cb]:
                # no error callback: the body does not mention the lexer at all
                ens.append('*final(lex) == *old(lex)')
            ins = self.render_contract(key, req, ens, None)
            self.fns[key] = dict(kind='make_error')
            edits.append((i_ob, 0, ins))
        return edits

    def state_post(self):
        W = lambda x: WF.format(x=x); L = lambda x: LEN.format(x=x)
        return [W('final(lex)'),
                'final(lex).source == old(lex).source && final(lex).is_prefix == old(lex).is_prefix',
                'old(lex).token_start <= final(lex).token_start',
                'r.is_some() ==> final(lex).token_start < final(lex).token_end',
                'r.is_none() && !old(lex).is_prefix ==> final(lex).token_start == final(lex).token_end && final(lex).token_end == %s' % L('final(lex)'),
                'r.is_none() && old(lex).is_prefix ==> final(lex).token_start == final(lex).token_end']

    def render_contract(self, key, req, ens, dec):
        out = ['\n']
        if req:
            out += ['requires', '\n']
            for k, r in enumerate(req): out += self.clause('%s.requires[%d]' % (key, k), r + ',')
        if ens:
            out += ['ensures', '\n']
            for k, e in enumerate(ens): out += self.clause('%s.ensures[%d]' % (key, k), e + ',')
            if self.canary == key:
                out += self.clause('%s.canary' % key, 'false,'); self.inserted.pop()
        if dec:
            out += ['decreases', '\n'] + self.clause('%s.decreases' % key, ', '.join(dec) + ',')
        self.entry_for.add(key)
        return out

    ENTRY = ['broadcast', 'use', 'group_verif_axioms', ',', 'axiom_vlex_u8_slice_len', ';']

    def entry_proofs(self):
        """one `proof { broadcast use ..; }` block right after the opening brace of every function under contract"""
        t = self.toks
        pos = []
        for (name, i_fn, i_par, i_ob, i_cb) in self.fn_items():
            if '%s::%s' % (self.name, name) in self.entry_for and t[i_ob + 1] != 'unimplemented':
                pos.append(i_ob + 1)
        for p_ in sorted(pos, reverse=True):
            t[p_:p_] = self.ENTRY + ['\n']

    def loop_invariants(self, key, i_ob, i_cb, eoi_target, inv_extra=None):
        """invariants for the loops of an expanded _fast_loop inside toks[i_ob:i_cb] (a state function body)"""
        t = self.toks; edits = []
        L = LEN.format(x='lex')
        bound = '%s + 1' % L if eoi_target else L
        base = [WF.format(x='lex'), 'lex.token_start < offset && offset <= %s' % bound, '%s < usize::MAX' % L, 'vlex_off0 <= offset', 'vlex_floor <= offset'] if inv_extra is None else inv_extra
        n = 0
        k = i_ob
        while k < i_cb:
            if t[k].startswith("'") and t[k + 1] == ':' and t[k + 2] == 'loop' and t[k + 3] == '{':
                ins = ['\n', 'invariant_except_break', '\n'] + self.clause('%s.loop%d.invariant' % (key, n), ' && '.join(base) + ',')
                ins += ['ensures', '\n'] + self.clause('%s.loop%d.ensures' % (key, n), ' && '.join(base) + ',')
                ins += ['decreases', '1int', ',', '\n']
                edits.append((k + 3, 0, ins)); n += 1
            elif t[k] == 'while' and t[k + 1] == 'let':
                b = k
                while t[b] != '{':
                    if t[b] in OPEN: b = match(t, b)
                    b += 1
                ins = ['\n', 'invariant', '\n'] + self.clause('%s.loop%d.invariant' % (key, n), ' && '.join(base) + ',')
                ins += ['decreases', '\n'] + self.clause('%s.loop%d.decreases' % (key, n), '%s + 1 - offset,' % L)
                edits.append((b, 0, ins)); n += 1
            k += 1
        if n:
            # ghost snapshot of `offset` at the entry of the state body, so that the invariants can say it never decreases
            edits.append((i_ob + 1, 0, ['let', 'ghost', 'vlex_off0', '=', 'offset', ';', '\n']))
        return edits

    # ---- rendering ---------------------------------------------------------------------------------------------------
    def render(self):
        """-> (text lines, linemap) ; linemap[i] = dict(fn=key|None, clause=id|None)"""
        t = self.toks
        text_lines = []; linemap = []
        cur = []; clause = [None]
        fn_stack = []          # [key, depth of its body's closing brace or None while in the header]
        depth = 0
        pending_fn = [None]
        def emit():
            nonlocal cur
            if cur or clause[0]:
                text_lines.append(' '.join(cur))
                linemap.append(dict(fn=(fn_stack[-1][0] if fn_stack else None), clause=clause[0]))
            cur = []; clause[0] = None
        for idx, tok in enumerate(t):
            if tok == '\n': emit(); continue
            if tok.startswith('\x00'):
                clause[0] = tok[1:-1]; continue
            if tok == 'fn' and idx + 1 < len(t) and re.match(r'[A-Za-z_]\w*$', t[idx + 1]):
                emit()
                nm = t[idx + 1]
                key = '%s::%s' % (self.name, nm)
                if key not in self.fns: key = fn_stack[-1][0] if fn_stack else None
                fn_stack.append([key, None])
            cur.append(tok)
            if tok == '{':
                if fn_stack and fn_stack[-1][1] is None and self._hdr_depth(fn_stack) == 0:
                    fn_stack[-1][1] = depth
                depth += 1; emit()
            elif tok == '}':
                depth -= 1; emit()
                while fn_stack and fn_stack[-1][1] is not None and depth <= fn_stack[-1][1]:
                    fn_stack.pop()
            elif tok == ';' and self._paren == 0:
                emit()
            if tok in ('(', '['): self._paren += 1
            elif tok in (')', ']'): self._paren -= 1
        emit()
        return text_lines, linemap

    _paren = 0
    def _hdr_depth(self, fn_stack):
        return self._paren

def transform(name, raw, lex_req, lex_ens, bytes_view=False, canary=None, sources=()):
    u = Unit(name, raw, bytes_view=bytes_view)
    u.canary = canary
    u.reduce_attrs()
    u.analyse()
    u.expand_macros()
    u.labelled_blocks()
    u.unit_closure_params()
    u.eta_expand_constructors()
    u.user_environment(sources)
    u.make_bytes_view()
    u.hoist_enums()
    u.rename_arm_items()
    u.rehead_lex(lex_req, lex_ens)
    if u.state_machine:
        u.contracts_state_machine()
    else:
        u.contracts_tailcall()
    u.fatal_byte_assertions()
    u.read_monotone()
    u.entry_proofs()
    # hoisted enums go in front
    pre = []
    for item in u.hoisted: pre += item + ['\n']
    pre += u.env
    u.toks = pre + u.toks
    return u
