# Unit V-skip: SkipRetVal::construct (4 impls) and From<SkipResult> for CallbackResult, over the same base items as
# V-src.  See the comment at the end of v_src.py for why this is a separate Verus file.
import os, importlib.util
_sp = importlib.util.spec_from_file_location('v_src_for_skip', os.path.join(os.path.dirname(os.path.abspath(__file__)), 'v_src.py'))
_m = importlib.util.module_from_spec(_sp); _sp.loader.exec_module(_m)
UNIT = _m.UNIT_SKIP
