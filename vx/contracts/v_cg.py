# Contracts for unit V-cg: the byte-class algebra of logos-codegen/src/graph/mod.rs that Verus accepts verbatim
# (ByteClass::new / add_byte / to_table, Comparisons::new / count_ops, StateType::early_or_accept).
# ByteClass::merge, ByteClass::impl_with_cmp and StateData::can_error use iterator adapters / `continue` that Verus
# rejects; they are covered by the bounded Kani unit K-cg.

PRELUDE = r'''
#![allow(unused_imports, dead_code, unused_variables, unused_mut)]
use vstd::prelude::*;
use core::ops::RangeInclusive;
use vstd::std_specs::iter::IteratorSpec;

verus! {

// assumed contracts on std functions vstd does not specify
pub assume_specification<Idx>[RangeInclusive::<Idx>::start](r: &RangeInclusive<Idx>) -> (s: &Idx) ensures *s == r@.start;
pub assume_specification<Idx>[RangeInclusive::<Idx>::end](r: &RangeInclusive<Idx>) -> (s: &Idx) ensures *s == r@.end;
// (sound for the only instantiation used here, Idx = u8, whose clone is the identity)
pub assume_specification<Idx: Clone>[<RangeInclusive<Idx> as Clone>::clone](r: &RangeInclusive<Idx>) -> (c: RangeInclusive<Idx>) ensures c@ == r@;

pub assume_specification<T>[Option::<T>::or](a: Option<T>, b: Option<T>) -> (r: Option<T>)
    ensures r == (if a.is_some() { a } else { b });

// ------------------------------------------------------------------------------------------
// abstract view of a byte class: the set of bytes it denotes

pub open spec fn in_range(r: RangeInclusive<u8>, b: int) -> bool { !r@.exhausted && r@.start <= b <= r@.end }

/// b is in one of the first n ranges
pub open spec fn has_upto(rs: Seq<RangeInclusive<u8>>, b: int, n: int) -> bool
    decreases n
{
    if n <= 0 { false } else { has_upto(rs, b, n - 1) || (n - 1 < rs.len() && in_range(rs[n - 1], b)) }
}
/// the byte class denotes b
pub open spec fn bc_has(rs: Seq<RangeInclusive<u8>>, b: int) -> bool { has_upto(rs, b, rs.len() as int) }

/// ranges non-empty, sorted, separated by at least one byte (the invariant stated in the doc comment of ByteClass)
pub open spec fn wf(rs: Seq<RangeInclusive<u8>>) -> bool {
    &&& forall|i: int| 0 <= i < rs.len() ==> !(#[trigger] rs[i])@.exhausted && rs[i]@.start <= rs[i]@.end
    &&& forall|i: int, j: int| 0 <= i < j < rs.len() ==> (#[trigger] rs[i])@.end + 1 < (#[trigger] rs[j])@.start
}

/// structural effect of add_byte (strongest postcondition; the set-level statement follows by lemma_add_byte)
pub open spec fn add_byte_post(o: Seq<RangeInclusive<u8>>, n: Seq<RangeInclusive<u8>>, byte: u8) -> bool {
    if o.len() > 0 && o.last()@.end + 1 == byte {
        &&& n.len() == o.len()
        &&& forall|i: int| 0 <= i < o.len() - 1 ==> n[i] == o[i]
        &&& n.last()@.start == o.last()@.start && n.last()@.end == byte && !n.last()@.exhausted
    } else {
        &&& n.len() == o.len() + 1
        &&& forall|i: int| 0 <= i < o.len() ==> n[i] == o[i]
        &&& n.last()@.start == byte && n.last()@.end == byte && !n.last()@.exhausted
    }
}

pub proof fn lemma_has_upto(rs: Seq<RangeInclusive<u8>>, b: int, n: int)
    requires 0 <= n <= rs.len()
    ensures has_upto(rs, b, n) <==> exists|i: int| 0 <= i < n && #[trigger] in_range(rs[i], b)
    decreases n
{
    if n > 0 {
        lemma_has_upto(rs, b, n - 1);
        if has_upto(rs, b, n - 1) {
            let i = choose|i: int| 0 <= i < n - 1 && #[trigger] in_range(rs[i], b);
            assert(0 <= i < n && in_range(rs[i], b));
        }
        if exists|i: int| 0 <= i < n && #[trigger] in_range(rs[i], b) {
            let i = choose|i: int| 0 <= i < n && #[trigger] in_range(rs[i], b);
            if i < n - 1 { assert(0 <= i < n - 1 && in_range(rs[i], b)); }
        }
    }
}

/// C01 support lemma: a class built by add_byte (bytes arriving in ascending order) denotes exactly the bytes added
/// and stays well formed.
pub proof fn lemma_add_byte(o: Seq<RangeInclusive<u8>>, n: Seq<RangeInclusive<u8>>, byte: u8)
    requires wf(o), o.len() > 0 ==> o.last()@.end < byte, add_byte_post(o, n, byte)
    ensures wf(n), forall|x: int| bc_has(n, x) <==> (bc_has(o, x) || x == byte)
{
    assert forall|x: int| bc_has(n, x) <==> (bc_has(o, x) || x == byte) by {
        lemma_has_upto(n, x, n.len() as int);
        lemma_has_upto(o, x, o.len() as int);
        if bc_has(n, x) {
            let i = choose|i: int| 0 <= i < n.len() && #[trigger] in_range(n[i], x);
            if o.len() > 0 && o.last()@.end + 1 == byte {
                if i < o.len() - 1 { assert(in_range(o[i], x)); } else { if x != byte { assert(in_range(o[o.len() - 1], x)); } }
            } else {
                if i < o.len() { assert(in_range(o[i], x)); }
            }
        }
        if bc_has(o, x) {
            let i = choose|i: int| 0 <= i < o.len() && #[trigger] in_range(o[i], x);
            assert(in_range(n[i], x));
        }
        if x == byte { assert(in_range(n[n.len() - 1], x)); }
    }
}

/// the empty class denotes nothing
pub proof fn lemma_empty(rs: Seq<RangeInclusive<u8>>)
    requires rs.len() == 0
    ensures wf(rs), forall|x: int| !bc_has(rs, x)
{ }

// from logos-codegen/src/leaf.rs (plain data, copied by the extractor below)
'''

EPILOGUE = r'''
} // verus!
fn main() {}
'''

UNIT = dict(
    name='v_cg',
    prelude=PRELUDE,
    epilogue=EPILOGUE,
    items=[
        dict(file='logos-codegen/src/leaf.rs', header=r'^pub struct LeafId\(pub usize\)$', name='LeafId'),
        dict(file='logos-codegen/src/graph/mod.rs', header=r'^pub struct StateType$', name='struct StateType'),
        dict(file='logos-codegen/src/graph/mod.rs', header=r'^impl StateType$', name='StateType',
             fns={'early_or_accept': dict(ret='r', ensures=['r == (if self.early.is_some() { self.early } else { self.accept })'], props=['C01'])}),
        dict(file='logos-codegen/src/graph/mod.rs', header=r'^pub struct ByteClass$', name='struct ByteClass'),
        dict(file='logos-codegen/src/graph/mod.rs', header=r'^impl ByteClass$', name='ByteClass',
             only=['new', 'add_byte', 'to_table'],
             fns={
                 'new': dict(ret='r', ensures=['r.ranges@.len() == 0', 'wf(r.ranges@)', 'forall|b: int| !bc_has(r.ranges@, b)'], props=['C01']),
                 'add_byte': dict(requires=['wf(old(self).ranges@)', 'old(self).ranges@.len() > 0 ==> old(self).ranges@.last()@.end < byte'],
                                  ensures=['add_byte_post(old(self).ranges@, final(self).ranges@, byte)', 'wf(final(self).ranges@)'],
                                  props=['C01']),
                 'to_table': dict(ret='r', requires=['wf(self.ranges@)'],
                                  ensures=['forall|b: int| 0 <= b < 256 ==> r@[b] == bc_has(self.ranges@, b)'],
                                  loops={
                                      0: dict(iter='it', invariant=[
                                          'wf(self.ranges@)', 'it.seq().len() == self.ranges@.len()',
                                          'forall|i: int| 0 <= i < it.seq().len() ==> *it.seq()[i] == self.ranges@[i]',
                                          'forall|b: int| 0 <= b < 256 ==> table_bits@[b] == has_upto(self.ranges@, b, it.index() as int)']),
                                      1: dict(iter='it2', invariant=[
                                          'wf(self.ranges@)',
                                          '0 <= it.index() < self.ranges@.len()', '*range == self.ranges@[it.index() as int]',
                                          'it2.seq().len() == range@.end - range@.start + 1',
                                          'forall|k: int| 0 <= k < it2.seq().len() ==> it2.seq()[k] == range@.start + k',
                                          'forall|b: int| 0 <= b < 256 ==> table_bits@[b] == (has_upto(self.ranges@, b, it.index() as int) || (range@.start <= b < range@.start + it2.index()))']),
                                  },
                                  props=['C01']),
             }),
        dict(file='logos-codegen/src/graph/mod.rs', header=r'^pub struct Comparisons$', name='struct Comparisons'),
        dict(file='logos-codegen/src/graph/mod.rs', header=r'^impl Comparisons$', name='Comparisons',
             fns={
                 'new': dict(ret='r', ensures=['r.range == range', 'r.except@.len() == 0'], props=['C01']),
                 # count_ops chooses between two equivalent renderings (comparison chain / LUT): only overflow freedom and the
                 # documented count are pinned
                 'count_ops': dict(ret='r', requires=['self.except@.len() <= 256'],
                                   ensures=['r <= 2 + self.except@.len()', 'self.range@.start == self.range@.end ==> r == 1 + self.except@.len()'], props=['C01']),
             }),
    ],
)
