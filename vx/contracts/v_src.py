# Contracts for unit V-src: the hand-written runtime crate (src/source.rs, src/lexer.rs,
# src/internal.rs, the trait `Logos` of src/lib.rs).
#
# This file is the *specification*: every string below is inserted by vx/extract.py between a
# signature and its body (requires/ensures), after a loop header (invariant/decreases), or at
# function entry (one `proof { ... }` block).  Nothing here replaces executable text.

def WF(x):
    """Representation invariant of a Lexer, written out (it cannot be a spec fn on Lexer when
    used inside the contract of `Logos::lex`: Verus reports a trait/spec-fn cycle)."""
    return ('(%(x)s.token_start <= %(x)s.token_end && %(x)s.token_end <= %(x)s.source.sview().len()'
            ' && %(x)s.source.boundary(%(x)s.token_start as int) && %(x)s.source.boundary(%(x)s.token_end as int))') % {'x': x}

def FRAME(new, old, fields):
    return ' && '.join('%s.%s == %s.%s' % (new, f, old, f) for f in fields)

PRELUDE_COMMON = r'''
#![allow(unused_imports, dead_code, unused_variables, unused_mut, unused_unsafe, unused_parens)]
use vstd::prelude::*;
use vstd::utf8::*;
use vstd::string::*;
use core::ops::{Deref, DerefMut, Range};
use core::fmt::Debug;

verus! {

pub type Span = core::ops::Range<usize>;
// the repository's module paths, so that `source::Chunk` in src/lexer.rs resolves in the flattened file
pub mod source { pub use super::Chunk; pub use super::Source; }

// ------------------------------------------------------------------------------------------
// ghost vocabulary

/// `p` points at byte `off` of an allocation whose contents are `s`.
pub uninterp spec fn points_into<T>(p: *const T, s: Seq<T>, off: int) -> bool;

/// bytes denoted by a value of a slice-like type (`str`, `[u8]`), for the generic index specs.
pub uninterp spec fn elems_of<T, O: ?Sized>(o: &O) -> Seq<T>;
pub uninterp spec fn idx_lo<I>(i: I) -> int;
pub uninterp spec fn idx_hi<I>(i: I) -> int;

// ------------------------------------------------------------------------------------------
// trusted axioms (listed in the evidence as assumptions)

#[verifier::external_body]
pub broadcast proof fn axiom_bytes_of_str(s: &str)
    ensures #[trigger] elems_of::<u8, str>(s) == s.spec_bytes() {}

#[verifier::external_body]
pub broadcast proof fn axiom_bytes_of_slice<T>(s: &[T])
    ensures #[trigger] elems_of::<T, [T]>(s) == s@ {}

#[verifier::external_body]
pub broadcast proof fn axiom_idx_lo_range(r: Range<usize>)
    ensures #[trigger] idx_lo::<Range<usize>>(r) == r.start as int {}

#[verifier::external_body]
pub broadcast proof fn axiom_idx_hi_range(r: Range<usize>)
    ensures #[trigger] idx_hi::<Range<usize>>(r) == r.end as int {}

/// A `str` never holds more than usize::MAX bytes (Rust allocation limit: isize::MAX).
#[verifier::external_body]
pub broadcast proof fn axiom_str_len_fits(s: &str)
    ensures #[trigger] s.spec_bytes().len() <= usize::MAX {}

/// A slice never holds more than usize::MAX elements.
#[verifier::external_body]
pub broadcast proof fn axiom_slice_len_fits<T>(s: &[T])
    ensures #[trigger] s@.len() <= usize::MAX {}

pub broadcast group group_verif_axioms {
    axiom_bytes_of_str, axiom_bytes_of_slice, axiom_idx_lo_range, axiom_idx_hi_range, axiom_str_len_fits, axiom_slice_len_fits,
}

// the point at which a specified panic is raised: diverges, but only under the state invariant
#[verifier::external_body]
pub fn verif_panic_point(Ghost(inv): Ghost<bool>) -> !
    requires inv,
    ensures false,
{ panic!("Invalid Lexer bump") }

// ------------------------------------------------------------------------------------------
// assumed contracts on std functions vstd does not specify

pub assume_specification<T, F: FnOnce(T) -> bool>[ Option::<T>::is_some_and ](o: Option<T>, f: F) -> (r: bool)
    requires o.is_some() ==> f.requires((o.unwrap(),)),
    ensures
        o.is_none() ==> !r,
        o.is_some() ==> f.ensures((o.unwrap(),), r);

pub assume_specification<'a, T: Copy>[ Option::<&'a T>::copied ](o: Option<&'a T>) -> (r: Option<T>)
    ensures r == (match o { Some(x) => Some(*x), None => None });

pub assume_specification<I: core::slice::SliceIndex<str>>[ str::get::<I> ](s: &str, i: I) -> (r: Option<&I::Output>)
    ensures
        r.is_some() <==> (idx_lo(i) <= idx_hi(i) && idx_hi(i) <= s.spec_bytes().len()
                          && is_char_boundary(s.spec_bytes(), idx_lo(i))
                          && is_char_boundary(s.spec_bytes(), idx_hi(i))),
        r.is_some() ==> elems_of::<u8, I::Output>(r.unwrap()) == s.spec_bytes().subrange(idx_lo(i), idx_hi(i));
'''

PRELUDE_UNSAFE = r'''
pub assume_specification<I: core::slice::SliceIndex<str>>[ str::get_unchecked::<I> ](s: &str, i: I) -> (r: &I::Output)
    requires
        0 <= idx_lo(i) <= idx_hi(i), idx_hi(i) <= s.spec_bytes().len(),
        is_char_boundary(s.spec_bytes(), idx_lo(i)),
        is_char_boundary(s.spec_bytes(), idx_hi(i)),
    ensures elems_of::<u8, I::Output>(r) == s.spec_bytes().subrange(idx_lo(i), idx_hi(i));

pub assume_specification<T, I: core::slice::SliceIndex<[T]>>[ <[T]>::get_unchecked::<I> ](s: &[T], i: I) -> (r: &I::Output)
    requires 0 <= idx_lo(i) <= idx_hi(i), idx_hi(i) <= s@.len(),
    ensures elems_of::<T, I::Output>(r) == s@.subrange(idx_lo(i), idx_hi(i));

pub assume_specification<T>[ <[T]>::as_ptr ](s: &[T]) -> (r: *const T)
    ensures points_into(r, s@, 0);

pub assume_specification[ str::as_ptr ](s: &str) -> (r: *const u8)
    ensures points_into(r, s.spec_bytes(), 0);

pub assume_specification<T>[ <*const T>::add ](p: *const T, count: usize) -> (r: *const T)
    requires exists|s: Seq<T>, off: int| #[trigger] points_into(p, s, off) && 0 <= off && off + count <= s.len(),
    ensures forall|s: Seq<T>, off: int| #[trigger] points_into(p, s, off) ==> points_into(r, s, off + count);
'''

def prelude(cfg):
    return PRELUDE_COMMON + ('' if cfg['forbid_unsafe'] else PRELUDE_UNSAFE)

EPILOGUE = r'''
} // verus!
fn main() {}
'''

# ---------------------------------------------------------------------------------------------
# Source

SOURCE_TRAIT_GHOST = r'''
    /// the bytes of the source
    spec fn sview(&self) -> Seq<u8>;
    /// positions at which the source may be sliced
    spec fn boundary(&self, i: int) -> bool;
    /// the bytes of a slice of this source
    spec fn slice_view(s: &Self::Slice<'_>) -> Seq<u8>;
    /// trait law every implementation must discharge
    proof fn boundary_laws(&self)
        ensures
            self.sview().len() <= usize::MAX,
            self.boundary(0),
            self.boundary(self.sview().len() as int),
            forall|i: int| self.boundary(i) ==> 0 <= i <= self.sview().len();
'''

SLICE_ENS = [
    'r.is_some() <==> (range.start <= range.end && range.end <= self.sview().len() && self.boundary(range.start as int) && self.boundary(range.end as int))',
    'r.is_some() ==> Self::slice_view(&r.unwrap()) == self.sview().subrange(range.start as int, range.end as int)',
]
SLICE_UNCHECKED_REQ = [
    'range.start <= range.end', 'range.end <= self.sview().len()',
    'self.boundary(range.start as int)', 'self.boundary(range.end as int)',
]
SLICE_UNCHECKED_ENS = ['Self::slice_view(&r) == self.sview().subrange(range.start as int, range.end as int)']
READ_ENS = [
    'r.is_some() <==> offset + Chunk::SIZE <= self.sview().len()',
    'r.is_some() ==> r.unwrap().bytes() == self.sview().subrange(offset as int, offset + Chunk::SIZE)',
]
FIND_BOUNDARY_REQ = ['index <= self.sview().len()']
FIND_BOUNDARY_ENS = [
    'index <= r && r <= self.sview().len()',
    'self.boundary(r as int)',
    'forall|j: int| index <= j < r ==> !self.boundary(j)',
]
IS_BOUNDARY_ENS = ['r == self.boundary(index as int)']
LEN_ENS = ['r == self.sview().len()']

def source_trait(cfg):
    fns = {
        'len': dict(ret='r', ensures=LEN_ENS, props=['C05', 'C14']),
        'read': dict(ret='r', ensures=READ_ENS, props=['C05', 'C20']),
        'slice': dict(ret='r', ensures=SLICE_ENS, props=['C05', 'C14', 'C04']),
        'find_boundary': dict(ret='r', requires=FIND_BOUNDARY_REQ, ensures=FIND_BOUNDARY_ENS, props=['C02', 'C04', 'C12']),
        'is_boundary': dict(ret='r', ensures=IS_BOUNDARY_ENS, props=['C04', 'C15']),
    }
    if not cfg['forbid_unsafe']:
        fns['slice_unchecked'] = dict(ret='r', requires=SLICE_UNCHECKED_REQ, ensures=SLICE_UNCHECKED_ENS, props=['C04', 'C05', 'C15'])
    return fns

STR_GHOST = r'''
    open spec fn sview(&self) -> Seq<u8> { self.spec_bytes() }
    open spec fn boundary(&self, i: int) -> bool { 0 <= i <= self.spec_bytes().len() && is_char_boundary(self.spec_bytes(), i) }
    open spec fn slice_view(s: &&str) -> Seq<u8> { s.spec_bytes() }
    proof fn boundary_laws(&self) {
        broadcast use group_utf8_lib, group_string_axioms, group_verif_axioms;
        is_char_boundary_start_end_of_seq(self.spec_bytes());
    }
'''
U8_GHOST = r'''
    open spec fn sview(&self) -> Seq<u8> { self@ }
    open spec fn boundary(&self, i: int) -> bool { 0 <= i <= self@.len() }
    open spec fn slice_view(s: &&[u8]) -> Seq<u8> { s@ }
    proof fn boundary_laws(&self) { broadcast use group_verif_axioms; }
'''

STR_ENTRY = 'broadcast use group_utf8_lib, group_string_axioms, group_verif_axioms; proof { self.boundary_laws(); }'
U8_ENTRY = 'broadcast use group_verif_axioms; proof { self.boundary_laws(); }'

def read_fn(cfg, entry=''):
    d = dict(props=['C05', 'C20'], entry=entry)
    if not cfg['forbid_unsafe']:
        d['closures'] = [dict(ordinal=0, ret='bool')]
    return d

def str_fns(cfg):
    fns = {
        'len': dict(entry=STR_ENTRY, props=['C05', 'C14']),
        'read': read_fn(cfg, STR_ENTRY),
        'slice': dict(entry=STR_ENTRY, props=['C05', 'C14', 'C04']),
        'find_boundary': dict(entry=STR_ENTRY + ' let ghost old_index = index;', props=['C02', 'C04', 'C12'],
                              loops={0: dict(invariant=['old_index <= index', 'index <= self.spec_bytes().len()',
                                                        'self.spec_bytes().len() <= usize::MAX',
                                                        'is_char_boundary(self.spec_bytes(), self.spec_bytes().len() as int)',
                                                        'forall|j: int| old_index <= j < index ==> !self.boundary(j)'],
                                             decreases='self.spec_bytes().len() - index')}),
        'is_boundary': dict(entry=STR_ENTRY, props=['C04', 'C15']),
    }
    if not cfg['forbid_unsafe']:
        fns['slice_unchecked'] = dict(entry=STR_ENTRY, props=['C04', 'C05', 'C15'])
    return fns

def u8_fns(cfg):
    fns = {
        'len': dict(entry=U8_ENTRY, props=['C05', 'C14']),
        'read': read_fn(cfg, U8_ENTRY),
        'slice': dict(entry=U8_ENTRY, props=['C05', 'C14']),
        'is_boundary': dict(entry=U8_ENTRY, props=['C12', 'C15']),
    }
    if not cfg['forbid_unsafe']:
        fns['slice_unchecked'] = dict(entry=U8_ENTRY, props=['C05', 'C15'])
    return fns

# ---------------------------------------------------------------------------------------------
# Chunk

CHUNK_GHOST = r'''
    spec fn bytes(&self) -> Seq<u8>;
    proof fn size_fits() ensures Self::SIZE <= usize::MAX;
'''
FROM_PTR_REQ = ['exists|s: Seq<u8>, off: int| #[trigger] points_into(ptr, s, off) && 0 <= off && off + Self::SIZE <= s.len()']
FROM_PTR_ENS = ['forall|s: Seq<u8>, off: int| #[trigger] points_into(ptr, s, off) && 0 <= off && off + Self::SIZE <= s.len() ==> r.bytes() == s.subrange(off, off + Self::SIZE)']
FROM_SLICE_ENS = ['r.is_some() <==> Self::SIZE <= s@.len()', 'r.is_some() ==> r.unwrap().bytes() == s@.subrange(0, Self::SIZE as int)']

def chunk_trait(cfg):
    if cfg['forbid_unsafe']:
        return {'from_slice': dict(ret='r', ensures=FROM_SLICE_ENS, props=['C05'])}
    return {'from_ptr': dict(ret='r', requires=FROM_PTR_REQ, ensures=FROM_PTR_ENS, props=['C05'])}

def chunk_u8(cfg):
    if cfg['forbid_unsafe']:
        return {'from_slice': dict(props=['C05'])}
    return {'from_ptr': dict(props=['C05'], external_body='raw pointer dereference; checked by Kani harness k_src::read_*')}

def chunk_arr(cfg):
    if cfg['forbid_unsafe']:
        return {'from_slice': dict(props=['C05'], external_body='TryFrom<&[u8]> for &[u8; N] is not specified by vstd; checked by Kani harness k_src::read_* (forbid_unsafe build)')}
    return {'from_ptr': dict(props=['C05'], external_body='raw pointer cast + dereference; checked by Kani harness k_src::read_*')}

CHUNK_U8_GHOST = r'''
    open spec fn bytes(&self) -> Seq<u8> { seq![*self] }
    proof fn size_fits() {}
'''
CHUNK_ARR_GHOST = r'''
    open spec fn bytes(&self) -> Seq<u8> { self@ }
    proof fn size_fits() {}
'''

# ---------------------------------------------------------------------------------------------
# Logos trait: LEX, the contract assumed of every derived `lex`

LEX_REQ = [WF('old(lexer)'), 'old(lexer).token_start == old(lexer).token_end']
LEX_ENS = [
    WF('final(lexer)'),
    'final(lexer).source == old(lexer).source && final(lexer).is_prefix == old(lexer).is_prefix',
    'r.is_some() ==> old(lexer).token_end <= final(lexer).token_start && final(lexer).token_start < final(lexer).token_end',
    'r.is_none() && !old(lexer).is_prefix ==> final(lexer).token_start == final(lexer).token_end && final(lexer).token_end == final(lexer).source.sview().len()',
    'r.is_none() && old(lexer).is_prefix ==> final(lexer).token_start == final(lexer).token_end && old(lexer).token_end <= final(lexer).token_end',
]

NEW_ENS = lambda partial: [
    WF('r'), 'r.token_start == 0 && r.token_end == 0', 'r.is_prefix == %s' % partial, 'r.source == source',
]

LEXER_FIELDS = ['source', 'is_prefix', 'token_start', 'token_end']

def lexer_fns(cfg):
    return {
        'new': dict(ret='r', ensures=NEW_ENS('false'), props=['C14']),
        'with_extras': dict(ret='r', ensures=NEW_ENS('false') + ['r.extras == extras'], entry='proof { source.boundary_laws(); }', props=['C14']),
        'new_partial': dict(ret='r', ensures=NEW_ENS('true'), props=['C14', 'C07']),
        'partial_with_extras': dict(ret='r', ensures=NEW_ENS('true') + ['r.extras == extras'], entry='proof { source.boundary_laws(); }', props=['C14', 'C07']),
        'source': dict(ret='r', ensures=['r == self.source'], props=['C14']),
        'spanned': dict(ret='r', ensures=['r.lexer == self'], props=['C14']),
        'span': dict(ret='r', ensures=['r.start == self.token_start && r.end == self.token_end'], props=['C14']),
        'slice': dict(ret='r', requires=[WF('self')],
                      ensures=['<Token::Source as Source>::slice_view(&r) == self.source.sview().subrange(self.token_start as int, self.token_end as int)'],
                      entry='proof { self.source.boundary_laws(); }', props=['C04', 'C05', 'C14', 'C15']),
        'remainder': dict(ret='r', requires=[WF('self')],
                          ensures=['<Token::Source as Source>::slice_view(&r) == self.source.sview().subrange(self.token_end as int, self.source.sview().len() as int)'],
                          entry='proof { self.source.boundary_laws(); }', props=['C04', 'C05', 'C14', 'C15']),
        'morph': dict(ret='r', requires=[WF('self')],
                      ensures=[WF('r'), FRAME('r', 'self', LEXER_FIELDS),
                               'call_ensures(<Token::Extras as Into<Token2::Extras>>::into, (self.extras,), r.extras)'],
                      props=['C14']),
        'bump': dict(requires=[WF('old(self)')],
                     ensures=['final(self).token_end == old(self).token_end + n',
                              WF('final(self)'),
                              FRAME('final(self)', 'old(self)', ['source', 'is_prefix', 'token_start', 'extras'])],
                     panic_points=[WF('self') + ' && self.source == pre.source && self.token_start == pre.token_start && self.is_prefix == pre.is_prefix'],
                     entry='let ghost pre = *self; proof { self.source.boundary_laws(); }',
                     props=['C15', 'C14', 'C13']),
    }

UNIT = dict(
    name='v_src',
    prelude=prelude,
    epilogue=EPILOGUE,
    items=[],
)

def _items():
    I = UNIT['items']
    I.append(dict(file='src/source.rs', header=r'^pub trait Source$', name='Source',
                  inject_head=SOURCE_TRAIT_GHOST, fns_cfg=source_trait,
                  strip_default_body=['find_boundary'],
                  sub_rewrite=[(r'PartialEq \+ Eq \+ Debug', 'PartialEq + Eq')]))
    I.append(dict(file='src/source.rs', header=r'^impl Source for str$', name='str', trait_name='Source',
                  inject_head=STR_GHOST, fns_cfg=str_fns))
    I.append(dict(file='src/source.rs', header=r'^impl Source for \[u8\]$', name='[u8]', trait_name='Source',
                  inject_head=U8_GHOST, fns_cfg=u8_fns,
                  inherit_default=[dict(file='src/source.rs', header=r'^pub trait Source$', fn='find_boundary',
                                        spec=dict(props=['C02', 'C12']))]))
    I.append(dict(file='src/source.rs', header=r"^pub trait Chunk<'source>", name='Chunk',
                  inject_head=CHUNK_GHOST, fns_cfg=chunk_trait))
    I.append(dict(file='src/source.rs', header=r"^impl<'source> Chunk<'source> for u8$", name='Chunk for u8', trait_name='Chunk',
                  inject_head=CHUNK_U8_GHOST, fns_cfg=chunk_u8))
    I.append(dict(file='src/source.rs', header=r"^impl<'source, const N: usize> Chunk<'source> for &'source \[u8; N\]$", name='Chunk for &[u8;N]', trait_name='Chunk',
                  inject_head=CHUNK_ARR_GHOST, fns_cfg=chunk_arr))
    I.append(dict(file='src/lib.rs', header=r"^pub trait Logos<'source>", name='Logos',
                  fns_cfg=lambda cfg: {
                      'lex': dict(ret='r', requires=LEX_REQ, ensures=LEX_ENS, props=['C03', 'C04', 'C07', 'C14']),
                  },
                  # default methods `lexer`/`lexer_with_extras` call Lexer::new, whose bound is this trait: Verus reports a
                  # definition cycle.  They are one-line delegations; K-lex harnesses enter through them.
                  only_not=['lexer', 'lexer_with_extras'],
                  sub_rewrite=[(r'Default \+ Clone \+ PartialEq \+ Debug', 'Default + Clone + PartialEq')]))
    I.append(dict(file='src/lexer.rs', header=r"^pub struct Lexer<'source", name='struct Lexer', pub_fields=True))
    I.append(dict(file='src/lexer.rs', header=r"^impl<'source, Token: Logos<'source>> Lexer<'source, Token>$", name='Lexer',
                  fns_cfg=lexer_fns, only_not=['range']))

# ---------------------------------------------------------------------------------------------
# Clone / Iterator / SpannedIter / LexerInternal

NEXT_REQ = [WF('old(self)')]
NEXT_ENS = [
    WF('final(self)'),
    'final(self).source == old(self).source && final(self).is_prefix == old(self).is_prefix',
    # tiling: an item starts at or after the previous end, is non-empty
    'r.is_some() ==> old(self).token_end <= final(self).token_start && final(self).token_start < final(self).token_end',
    'r.is_none() && !old(self).is_prefix ==> final(self).token_start == final(self).token_end && final(self).token_end == final(self).source.sview().len()',
    'r.is_none() && old(self).is_prefix ==> final(self).token_start == final(self).token_end && old(self).token_end <= final(self).token_end',
]

def SP(x):
    return WF(x + '.lexer')

SPANNED_NEXT_ENS = [
    SP('final(self)'),
    'final(self).lexer.source == old(self).lexer.source && final(self).lexer.is_prefix == old(self).lexer.is_prefix',
    'r.is_some() ==> r.unwrap().1.start == final(self).lexer.token_start && r.unwrap().1.end == final(self).lexer.token_end',
    'r.is_some() ==> old(self).lexer.token_end <= r.unwrap().1.start && r.unwrap().1.start < r.unwrap().1.end && r.unwrap().1.end <= final(self).lexer.source.sview().len()',
    'r.is_none() && !old(self).lexer.is_prefix ==> final(self).lexer.token_end == final(self).lexer.source.sview().len()',
]

INTERNAL_TRAIT_GHOST = r"""
    spec fn i_src(&self) -> Seq<u8>;
    spec fn i_boundary(&self, i: int) -> bool;
    spec fn i_start(&self) -> int;
    spec fn i_end(&self) -> int;
    spec fn i_prefix(&self) -> bool;
    spec fn i_wf(&self) -> bool;
"""
INTERNAL_IMPL_GHOST = r"""
    open spec fn i_src(&self) -> Seq<u8> { self.source.sview() }
    open spec fn i_boundary(&self, i: int) -> bool { self.source.boundary(i) }
    open spec fn i_start(&self) -> int { self.token_start as int }
    open spec fn i_end(&self) -> int { self.token_end as int }
    open spec fn i_prefix(&self) -> bool { self.is_prefix }
    open spec fn i_wf(&self) -> bool { %s }
""" % WF('self')

def internal_trait(cfg):
    return {
        'offset': dict(ret='r', ensures=['r == self.i_start()'], props=['C03']),
        # no contract on the declaration: the impl names the type parameter differently (`Chunk` vs `T`) and Verus
        # 0.2026.09.13 generates ill-typed AIR for an inherited clause that mentions it; the contract sits on the impl.
        'read': dict(props=['C05', 'C20']),
        'trivia': dict(requires=['old(self).i_wf()'],
                       ensures=['final(self).i_wf()', 'final(self).i_start() == old(self).i_end() && final(self).i_end() == old(self).i_end()',
                                'final(self).i_src() == old(self).i_src() && final(self).i_prefix() == old(self).i_prefix()'],
                       props=['C03', 'C13']),
        'end_to_boundary': dict(requires=['old(self).i_wf()', 'old(self).i_start() <= offset && offset <= old(self).i_src().len()'],
                                ensures=['final(self).i_wf()', 'final(self).i_start() == old(self).i_start()',
                                         'offset <= final(self).i_end() && final(self).i_boundary(final(self).i_end())',
                                         'forall|j: int| offset <= j < final(self).i_end() ==> !final(self).i_boundary(j)',
                                         'final(self).i_src() == old(self).i_src() && final(self).i_prefix() == old(self).i_prefix()'],
                                props=['C02', 'C04']),
        'end': dict(requires=['old(self).i_wf()', 'old(self).i_start() <= offset && offset <= old(self).i_src().len()', 'old(self).i_boundary(offset as int)'],
                    ensures=['final(self).i_wf()', 'final(self).i_start() == old(self).i_start() && final(self).i_end() == offset',
                             'final(self).i_src() == old(self).i_src() && final(self).i_prefix() == old(self).i_prefix()'],
                    props=['C01', 'C04']),
        'is_prefix': dict(ret='r', ensures=['r == self.i_prefix()'], props=['C07']),
    }

def internal_impl(cfg):
    return {
        'offset': dict(props=['C03']),
        'read': dict(ret='r', ensures=['r.is_some() <==> offset + Chunk::SIZE <= self.source.sview().len()',
                                       'r.is_some() ==> r.unwrap().bytes() == self.source.sview().subrange(offset as int, offset + Chunk::SIZE)'],
                     props=['C05', 'C20']),
        'trivia': dict(props=['C03', 'C13']), 'end_to_boundary': dict(props=['C02', 'C04'], entry='proof { self.source.boundary_laws(); }'),
        'end': dict(props=['C01', 'C04']), 'is_prefix': dict(props=['C07']),
    }

def _items():
    I = UNIT['items']
    I.append(dict(file='src/source.rs', header=r'^pub trait Source$', name='Source',
                  inject_head=SOURCE_TRAIT_GHOST, fns_cfg=source_trait,
                  strip_default_body=['find_boundary'],
                  sub_rewrite=[(r'PartialEq \+ Eq \+ Debug', 'PartialEq + Eq')]))
    I.append(dict(file='src/source.rs', header=r'^impl Source for str$', name='str', trait_name='Source',
                  inject_head=STR_GHOST, fns_cfg=str_fns))
    I.append(dict(file='src/source.rs', header=r'^impl Source for \[u8\]$', name='[u8]', trait_name='Source',
                  inject_head=U8_GHOST, fns_cfg=u8_fns,
                  inherit_default=[dict(file='src/source.rs', header=r'^pub trait Source$', fn='find_boundary',
                                        spec=dict(props=['C02', 'C12']))]))
    I.append(dict(file='src/source.rs', header=r"^pub trait Chunk<'source>", name='Chunk',
                  inject_head=CHUNK_GHOST, fns_cfg=chunk_trait))
    I.append(dict(file='src/source.rs', header=r"^impl<'source> Chunk<'source> for u8$", name='Chunk for u8', trait_name='Chunk',
                  inject_head=CHUNK_U8_GHOST, fns_cfg=chunk_u8))
    I.append(dict(file='src/source.rs', header=r"^impl<'source, const N: usize> Chunk<'source> for &'source \[u8; N\]$", name='Chunk for &[u8;N]', trait_name='Chunk',
                  inject_head=CHUNK_ARR_GHOST, fns_cfg=chunk_arr))
    I.append(dict(file='src/lib.rs', header=r"^pub trait Logos<'source>", name='Logos',
                  fns_cfg=lambda cfg: {
                      'lex': dict(ret='r', requires=LEX_REQ, ensures=LEX_ENS, props=['C03', 'C04', 'C07', 'C14']),
                  },
                  # default methods `lexer`/`lexer_with_extras` call Lexer::new, whose bound is this trait: Verus reports a
                  # definition cycle.  They are one-line delegations; K-lex harnesses enter through them.
                  only_not=['lexer', 'lexer_with_extras'],
                  sub_rewrite=[(r'Default \+ Clone \+ PartialEq \+ Debug', 'Default + Clone + PartialEq')]))
    I.append(dict(file='src/lib.rs', header=r'^pub struct Skip$', name='Skip'))
    I.append(dict(file='src/lib.rs', header=r'^pub enum Filter<T>$', name='Filter'))
    I.append(dict(file='src/lib.rs', header=r'^pub enum FilterResult<T, E>$', name='FilterResult'))
    I.append(dict(file='src/lexer.rs', header=r"^pub struct Lexer<'source", name='struct Lexer', pub_fields=True))
    I.append(dict(file='src/lexer.rs', header=r"^impl<'source, Token: Logos<'source>> Lexer<'source, Token>$", name='Lexer',
                  fns_cfg=lexer_fns, only_not=['range']))
    I.append(dict(file='src/lexer.rs', header=r"^impl<'source, Token> Clone for Lexer<'source, Token>", name='Lexer(Clone)',
                  rehead="impl<'source, Token> Lexer<'source, Token>\nwhere\n    Token: Logos<'source> + Clone,\n    Token::Extras: Clone,\n",
                  fns_cfg=lambda cfg: {'clone': dict(ret='r', requires=[WF('self')],
                                                     ensures=[WF('r'), FRAME('r', 'self', LEXER_FIELDS),
                                                              'call_ensures(<Token::Extras as Clone>::clone, (&self.extras,), r.extras)'],
                                                     props=['C14'])}))
    I.append(dict(file='src/lexer.rs', header=r"^impl<'source, Token> Iterator for Lexer<'source, Token>", name='Lexer(Iterator)',
                  rehead="impl<'source, Token> Lexer<'source, Token>\nwhere\n    Token: Logos<'source>,\n",
                  drop_sub=[r'^type Item'],
                  fns_cfg=lambda cfg: {'next': dict(ret='r', requires=NEXT_REQ, ensures=NEXT_ENS, props=['C03', 'C14', 'C01', 'C07'])}))
    I.append(dict(file='src/lexer.rs', header=r"^pub struct SpannedIter<'source", name='struct SpannedIter', pub_fields=True))
    I.append(dict(file='src/lexer.rs', header=r"^impl<'source, Token> Clone for SpannedIter<'source, Token>", name='SpannedIter(Clone)',
                  rehead="impl<'source, Token> SpannedIter<'source, Token>\nwhere\n    Token: Logos<'source> + Clone,\n    Token::Extras: Clone,\n",
                  fns_cfg=lambda cfg: {'clone': dict(ret='r', requires=[SP('self')],
                                                     ensures=[SP('r'), FRAME('r.lexer', 'self.lexer', LEXER_FIELDS)], props=['C14'])}))
    I.append(dict(file='src/lexer.rs', header=r"^impl<'source, Token> Iterator for SpannedIter<'source, Token>", name='SpannedIter(Iterator)',
                  rehead="impl<'source, Token> SpannedIter<'source, Token>\nwhere\n    Token: Logos<'source>,\n",
                  drop_sub=[r'^type Item'],
                  sub_rewrite=[],
                  fns_cfg=lambda cfg: {'next': dict(ret='r', requires=[SP('old(self)')], ensures=SPANNED_NEXT_ENS, props=['C14', 'C03'],
                                                    closures=[dict(ordinal=0,
                                                                   params='token: Result<Token, Token::Error>',
                                                                   ret='(Result<Token, Token::Error>, Span)',
                                                                   ensures='r.0 == token && r.1.start == self.lexer.token_start && r.1.end == self.lexer.token_end')])}))
    I.append(dict(file='src/lexer.rs', header=r"^impl<'source, Token> Deref for SpannedIter<'source, Token>", name='SpannedIter(Deref)',
                  rehead="impl<'source, Token> SpannedIter<'source, Token>\nwhere\n    Token: Logos<'source>,\n",
                  drop_sub=[r'^type Target'],
                  fns_cfg=lambda cfg: {'deref': dict(ret='r', ensures=['*r == self.lexer'], props=['C14'])}))
    I.append(dict(file='src/internal.rs', header=r"^pub trait LexerInternal<'source>$", name='LexerInternal',
                  inject_head=INTERNAL_TRAIT_GHOST, fns_cfg=internal_trait))
    I.append(dict(file='src/lexer.rs', header=r"^impl<'source, Token> LexerInternal<'source> for Lexer<'source, Token>", name='Lexer(LexerInternal)', trait_name='LexerInternal',
                  inject_head=INTERNAL_IMPL_GHOST, fns_cfg=internal_impl))

# ---------------------------------------------------------------------------------------------
# src/internal.rs: the callback return-value dispatch (C13).  The documented table
# (book/src/callbacks.md, src/lib.rs docs) row by row.

def INTO(e, out):
    return 'call_ensures(<E as Into<L::Error>>::into, (%s,), %s)' % (e, out)

CON_TOTAL = ['forall|p: P| con.requires((p,))']
EMIT = lambda v: 'r matches CallbackResult::Emit(t) && con.ensures((%s,), t)' % v

CONSTRUCT = [
 # (header regex, name, con param name, ensures)
 (r"CallbackRetVal<'a, T, L> for T$", 'construct[T]', 'con',
  [EMIT('self')]),
 (r"CallbackRetVal<'a, T, L> for Result<T, E>$", 'construct[Result<T,E>]', 'con',
  ['self matches Ok(v) ==> (' + EMIT('v') + ')',
   'self matches Err(e) ==> (r matches CallbackResult::Error(e2) && ' + INTO('e', 'e2') + ')']),
 (r"CallbackRetVal<'a, T, L> for Option<T>$", 'construct[Option<T>]', 'con',
  ['self matches Some(v) ==> (' + EMIT('v') + ')',
   'self is None ==> r is DefaultError']),
 (r"CallbackRetVal<'a, T, L> for Filter<T>$", 'construct[Filter<T>]', 'con',
  ['self matches Filter::Emit(v) ==> (' + EMIT('v') + ')',
   'self is Skip ==> r is Skip']),
 (r"CallbackRetVal<'a, T, L> for FilterResult<T, E>$", 'construct[FilterResult<T,E>]', 'con',
  ['self matches FilterResult::Emit(v) ==> (' + EMIT('v') + ')',
   'self is Skip ==> r is Skip',
   'self matches FilterResult::Error(e) ==> (r matches CallbackResult::Error(e2) && ' + INTO('e', 'e2') + ')']),
 (r"CallbackRetVal<'a, \(\), L> for bool$", 'construct[bool]', 'con',
  ['self ==> (' + EMIT('()') + ')', '!self ==> r is DefaultError']),
 (r"CallbackRetVal<'a, \(\), L> for Skip$", 'construct[Skip]', '_con',
  ['r is Skip']),
 (r"CallbackRetVal<'a, \(\), L> for Result<Skip, E>$", 'construct[Result<Skip,E>]', '_con',
  ['self is Ok ==> r is Skip',
   'self matches Err(e) ==> (r matches CallbackResult::Error(e2) && ' + INTO('e', 'e2') + ')']),
 (r"CallbackRetVal<'a, \(\), L> for L$", 'construct[L]', '_con',
  ['r matches CallbackResult::Emit(t) && t == self']),
 (r"CallbackRetVal<'a, \(\), L> for Result<L, E>$", 'construct[Result<L,E>]', '_con',
  ['self matches Ok(v) ==> (r matches CallbackResult::Emit(t) && t == v)',
   'self matches Err(e) ==> (r matches CallbackResult::Error(e2) && ' + INTO('e', 'e2') + ')']),
 (r"CallbackRetVal<'a, \(\), L> for Filter<L>$", 'construct[Filter<L>]', '_con',
  ['self matches Filter::Emit(v) ==> (r matches CallbackResult::Emit(t) && t == v)',
   'self is Skip ==> r is Skip']),
 (r"CallbackRetVal<'a, \(\), L> for FilterResult<L, E>$", 'construct[FilterResult<L,E>]', '_con',
  ['self matches FilterResult::Emit(v) ==> (r matches CallbackResult::Emit(t) && t == v)',
   'self is Skip ==> r is Skip',
   'self matches FilterResult::Error(e) ==> (r matches CallbackResult::Error(e2) && ' + INTO('e', 'e2') + ')']),
]

SKIP_CONSTRUCT = [
 (r"SkipRetVal<'a, L> for \(\)$", 'skip_construct[()]', ['r is Skip']),
 (r"SkipRetVal<'a, L> for Skip$", 'skip_construct[Skip]', ['r is Skip']),
 (r"SkipRetVal<'a, L> for Result<\(\), E>$", 'skip_construct[Result<(),E>]',
  ['self is Ok ==> r is Skip', 'self matches Err(e) ==> (r matches SkipResult::Error(e2) && ' + INTO('e', 'e2') + ')']),
 (r"SkipRetVal<'a, L> for Result<Skip, E>$", 'skip_construct[Result<Skip,E>]',
  ['self is Ok ==> r is Skip', 'self matches Err(e) ==> (r matches SkipResult::Error(e2) && ' + INTO('e', 'e2') + ')']),
]

def _internal_items():
    I = UNIT['items']
    I.append(dict(file='src/internal.rs', header=r"^pub enum CallbackResult<'a", name='CallbackResult'))
    I.append(dict(file='src/internal.rs', header=r"^pub trait CallbackRetVal<'a, P, L", name='CallbackRetVal',
                  fns_cfg=lambda cfg: {'construct': dict(ret='r', requires=CON_TOTAL, props=['C13'])}))
    for (hdr, name, con, ens) in CONSTRUCT:
        e2 = [x.replace('con.ensures', con + '.ensures') for x in ens]
        I.append(dict(file='src/internal.rs', header=hdr, name=name, trait_name='CallbackRetVal',
                      fns_cfg=(lambda e2: (lambda cfg: {'construct': dict(ret='r', ensures=e2, props=['C13'])}))(e2)))

def _skip_items(I):
    I.append(dict(file='src/internal.rs', header=r"^pub enum CallbackResult<'a", name='CallbackResult'))
    I.append(dict(file='src/internal.rs', header=r"^pub enum SkipResult<'a", name='SkipResult'))
    I.append(dict(file='src/internal.rs', header=r"^impl<'a, L: Logos<'a>> From<SkipResult<'a, L>> for CallbackResult<'a, L>$", name='From<SkipResult>',
                  rehead="impl<'a, L: Logos<'a>> CallbackResult<'a, L>",
                  fns_cfg=lambda cfg: {'from': dict(ret='r', ensures=[
                      'value is Skip ==> r is Skip',
                      'value matches SkipResult::Error(e) ==> (r matches CallbackResult::Error(e2) && e2 == e)'], props=['C13'])}))
    # The contract is stated once on the trait through a per-impl spec function (an impl-level `ensures` on a method
    # whose trait parameter `L` occurs only in the return type trips Verus's stub type inference).
    I.append(dict(file='src/internal.rs', header=r"^pub trait SkipRetVal<'a, L", name='SkipRetVal',
                  inject_head="    spec fn skip_post(self, r: SkipResult<'a, L>) -> bool;\n",
                  fns_cfg=lambda cfg: {'construct': dict(ret='r', ensures=['self.skip_post(r)'], props=['C13'])}))
    for (hdr, name, ens) in SKIP_CONSTRUCT:
        body = ' && '.join('(%s)' % e for e in ens)
        I.append(dict(file='src/internal.rs', header=hdr, name=name, trait_name='SkipRetVal',
                      inject_head="    open spec fn skip_post(self, r: SkipResult<'a, L>) -> bool { %s }\n" % body,
                      fns_cfg=lambda cfg: {'construct': dict(props=['C13'])}))

_items()
BASE_ITEMS = list(UNIT['items'])
_internal_items()

# Verus 0.2026.09.13 resolves the method stub it generates for an impl-level `ensures` by name only, so the two traits
# that both call their method `construct` (CallbackRetVal, SkipRetVal) cannot be verified in one file when a type
# implements both (`Skip`, `Result<Skip, E>`): the SkipRetVal family is unit v_skip (same base items, same text).
UNIT_SKIP = dict(name='v_skip', prelude=prelude, epilogue=EPILOGUE, items=list(BASE_ITEMS))
_skip_items(UNIT_SKIP['items'])
