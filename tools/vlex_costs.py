#!/usr/bin/env python3
"""developer tool: run V-lex over the whole corpus on the unchanged tree and record which (definition, generator) pairs
verify and how long they take -> vx/vlex_costs.json (selection input: a pair without a measured success is never scheduled)"""
import os, sys, json
ROOT = os.path.abspath(os.path.join(os.path.dirname(os.path.abspath(__file__)), '..'))
sys.path.insert(0, os.path.join(ROOT, 'lib'))
import vlex_engine as E
defs = sys.argv[1:] or sorted(E.CORPUS)
o = E.run(defs, ['tailcall', 'state_machine'], '/repo', os.path.join(ROOT, '.work'))
p = os.path.join(ROOT, 'vx', 'vlex_costs.json')
costs = json.load(open(p)) if os.path.exists(p) else {}
for r in o['results']:
    k = '%s/%s' % (r['defn'], r['codegen'])
    costs[k] = dict(status=r.get('status'), wall_s=r.get('wall_s'), verified=r.get('verified'), states=r.get('n_states'),
                    reason=(r.get('reason') or '')[:200] or None, rlimit=E.RLIMIT)
    print(k, costs[k])
json.dump(costs, open(p, 'w'), indent=1, sort_keys=True)
