#!/usr/bin/env python3
"""Run the registered check of each seeded change's property against a scratch worktree with the change applied and record
the outcome in seeded/<id>/meta.json (caught_by).  usage: run_seeds.py [seed-dir-name ...] [--tier quick|thorough]"""
import sys, os, json, subprocess, time
ROOT = os.path.abspath(os.path.join(os.path.dirname(os.path.abspath(__file__)), '..'))
WT = '/tmp/seed_run_wt'
args = [a for a in sys.argv[1:] if not a.startswith('--')]
tier = 'thorough' if '--tier=thorough' in sys.argv or '--thorough' in sys.argv else 'quick'
seeds = sorted(d for d in os.listdir(os.path.join(ROOT, 'seeded')) if os.path.isdir(os.path.join(ROOT, 'seeded', d)))
if args: seeds = [s for s in seeds if s in args or s.split('-')[0] in args]
def sh(*a, **k): return subprocess.run(a, capture_output=True, text=True, **k)
for sd in seeds:
    d = os.path.join(ROOT, 'seeded', sd)
    meta = json.load(open(os.path.join(d, 'meta.json')))
    prop = meta['property']
    sh('git', '-C', '/repo', 'worktree', 'remove', '--force', WT)
    sh('git', '-C', '/repo', 'worktree', 'add', '--detach', WT, 'HEAD')
    r = sh('git', '-C', WT, 'apply', os.path.join(d, 'patch.diff'))
    if r.returncode != 0:
        print('%-45s patch does not apply: %s' % (sd, r.stderr[:200])); continue
    t0 = time.time()
    r = sh(os.path.join(ROOT, 'check'), prop, '--tier', tier, env=dict(os.environ, VERIF_REPO=WT), cwd=ROOT)
    viol = [l for l in r.stdout.splitlines() if l.startswith('VIOLATION')]
    und = [l for l in r.stdout.splitlines() if l.startswith('UNDECIDED')]
    verdict = {0: 'MISSED', 1: 'caught', 2: 'undecided'}.get(r.returncode, 'rc=%d' % r.returncode)
    obligations = []
    for v in viol[:6]:
        rp = v.split('replay=')[1].split()[0]
        try: obligations.append(json.load(open(rp))['obligation'])
        except Exception: pass
    meta['caught_by'] = dict(check='./check %s --tier %s' % (prop, tier), verdict=verdict, exit_code=r.returncode,
                             failed_obligations=obligations, with_concrete_input=sum(1 for v in viol if 'no-failing-input-found' not in v),
                             undecided=und[:3], seconds=round(time.time() - t0))
    json.dump(meta, open(os.path.join(d, 'meta.json'), 'w'), indent=1)
    print('%-45s %-4s %-9s %4.0fs  %s' % (sd, prop, verdict, time.time() - t0, (obligations or und or [''])[0][:150]), flush=True)
sh('git', '-C', '/repo', 'worktree', 'remove', '--force', WT)
