#!/usr/bin/env python3
"""Merge a cost table produced by tools/cost_table.py into kani/lex/costs.json (config -> harness -> seconds | null)."""
import sys, json, os
ROOT = os.path.abspath(os.path.join(os.path.dirname(os.path.abspath(__file__)), '..'))
src, config = sys.argv[1], (sys.argv[2] if len(sys.argv) > 2 else 'default')
p = os.path.join(ROOT, 'kani', 'lex', 'costs.json')
costs = json.load(open(p)) if os.path.exists(p) else {}
tab = json.load(open(src))
c = costs.setdefault(config, {})
cv = costs.setdefault('covers:' + config, {})
n_ok = 0
for h, v in tab.items():
    if v['status'] == 'ok' and v['t'] is not None:
        c[h] = round(v['t'], 1); n_ok += 1
        sat = sorted(k for k, st in (v.get('covers') or {}).items() if st == 'SATISFIED')
        if sat: cv[h] = sat
    elif v['status'] in ('timeout',):
        c[h] = None
    # failures / tool errors are not recorded: the harness stays unselected until it has a measured cost
json.dump(costs, open(p, 'w'), indent=0, sort_keys=True)
print('costs.json: %s: %d harnesses with a cost, %d total entries' % (config, n_ok, len(c)))
