#!/usr/bin/env python3
"""Developer tool: run every K-lex harness matching a regex under a timeout and print a cost table (not a registered check)."""
import sys, os, re, json, time
sys.path.insert(0, os.path.join(os.path.dirname(os.path.abspath(__file__)), '..', 'lib'))
import kani_engine as K
pat = re.compile(sys.argv[1] if len(sys.argv) > 1 else '.')
timeout = int(sys.argv[2]) if len(sys.argv) > 2 else 300
feats = tuple(f for f in (sys.argv[3].split(',') if len(sys.argv) > 3 else []) if f)
d = K.prepare('lex', os.environ.get('VERIF_REPO', '/repo'))
idx = json.load(open(os.path.join(d, 'src', 'harness_index.json')))
hs = [h for h in idx if pat.search(h)]
print('running %d harnesses, timeout %d, features %s' % (len(hs), timeout, feats), flush=True)
r = K.run_pool(d, hs, features=feats, timeout=timeout)
print('wall', r['wall_s'], 'build_error', r['build_error'])
tab = {}
for k, v in sorted(r['results'].items()):
    tab[k] = dict(status=v['status'], t=v['time_s'], failed=v['failed_checks'][:3], covers=v['covers'], err=(v.get('error') or '')[-200:])
    print('%-50s %-8s %8s  %s %s' % (k, v['status'], v['time_s'], v['failed_checks'][:2], (v.get('error') or '')[-120:].replace('\n', ' ')), flush=True)
json.dump(tab, open(os.path.join(os.path.dirname(os.path.abspath(__file__)), '..', '.work', 'cost_%s.json' % re.sub(r'\W+', '_', sys.argv[1] if len(sys.argv) > 1 else 'all')), 'w'), indent=0)
