#!/usr/bin/env python3
"""Developer tool: run K-lex harnesses under a timeout and write a cost table (not a registered check).
usage: cost_table.py <name-regex> <timeout-s> [features] [--missing] [--max-default-cost N] [--defs A,B,..]"""
import sys, os, re, json, time
sys.path.insert(0, os.path.join(os.path.dirname(os.path.abspath(__file__)), '..', 'lib'))
import kani_engine as K
args = sys.argv[1:]
flags = {}
pos = []
i = 0
while i < len(args):
    if args[i] == '--missing': flags['missing'] = True; i += 1
    elif args[i] == '--max-default-cost': flags['maxdef'] = float(args[i + 1]); i += 2
    elif args[i] == '--defs': flags['defs'] = set(args[i + 1].split(',')); i += 2
    else: pos.append(args[i]); i += 1
pat = re.compile(pos[0] if pos else '.')
timeout = int(pos[1]) if len(pos) > 1 else 300
feats = tuple(f for f in (pos[2].split(',') if len(pos) > 2 else []) if f)
config = '+'.join(feats) or 'default'
ROOT = os.path.abspath(os.path.join(os.path.dirname(os.path.abspath(__file__)), '..'))
cp = os.path.join(ROOT, 'kani', 'lex', 'costs.json')
costs = json.load(open(cp)) if os.path.exists(cp) else {}
d = K.prepare('lex', os.environ.get('VERIF_REPO', '/repo'))
idx = K.full_index(d)
hs = []
for h, m in idx.items():
    if not pat.search(h): continue
    if flags.get('defs') and m['d'] not in flags['defs']: continue
    if flags.get('missing') and h in costs.get(config, {}): continue
    if 'maxdef' in flags:
        c = costs.get('default', {}).get(h)
        if c is None or c > flags['maxdef']: continue
    hs.append(h)
print('running %d harnesses, timeout %d, config %s' % (len(hs), timeout, config), flush=True)
K.restrict(d, hs)
r = K.run_pool(d, hs, features=feats, timeout=timeout)
print('wall', r['wall_s'], 'build_error', r['build_error'])
tab = {}
for k, v in sorted(r['results'].items()):
    tab[k] = dict(status=v['status'], t=v['time_s'], failed=v['failed_checks'][:3], covers=v['covers'], err=(v.get('error') or '')[-200:])
    print('%-50s %-8s %8s  %s %s' % (k, v['status'], v['time_s'], v['failed_checks'][:2], (v.get('error') or '')[-120:].replace('\n', ' ')), flush=True)
out = os.path.join(ROOT, '.work', 'cost_%s_%d.json' % (config.replace('+', '_'), int(time.time())))
os.makedirs(os.path.dirname(out), exist_ok=True)
json.dump(tab, open(out, 'w'), indent=0)
print('wrote', out)
