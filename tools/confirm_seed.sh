#!/bin/bash
# confirm_seed.sh <id> <outdir>: independently confirm a seeded change: demo passes on the unmodified tree, fails with the
# patch, and the existing test suite still passes with the patch.  Uses its own scratch worktree, removed afterwards.
set -u
ID=$1; OUT=$2; ORIG=${3:-/tmp/seed_$ID}; WT=/tmp/confirm_$ID; DEMO=/tmp/confirm_${ID}_demo
git -C /repo worktree remove --force $WT 2>/dev/null; rm -rf $DEMO
git -C /repo worktree add -q --detach $WT HEAD || exit 2
cp -r $OUT/demo $DEMO; rm -rf $DEMO/target
grep -rl "$ORIG" $DEMO --include=Cargo.toml --include=build.rs --include=run.sh | xargs -r sed -i "s#$ORIG#$WT#g"
cp $WT/Cargo.lock $DEMO/Cargo.lock 2>/dev/null
export CARGO_TARGET_DIR=/tmp/confirm_${ID}_target
rundemo() { if [ -f $DEMO/run.sh ]; then ( cd $DEMO && sh run.sh ); else ( cd $DEMO && cargo run --offline -q ); fi; }
rundemo >/tmp/confirm_${ID}_clean.log 2>&1; CLEAN=$?
git -C $WT apply $OUT/patch.diff || { echo "patch does not apply"; exit 2; }
rundemo >/tmp/confirm_${ID}_seeded.log 2>&1; SEEDED=$?
( cd $WT && CARGO_TARGET_DIR=/tmp/confirm_${ID}_target_ws cargo test --workspace --no-fail-fast --offline 2>&1 | grep -E "^test result" | awk '{p+=$4; f+=$6} END {print "tests passed", p, "failed", f}' ) > /tmp/confirm_${ID}_tests.log
echo "$ID: demo clean exit=$CLEAN seeded exit=$SEEDED; $(cat /tmp/confirm_${ID}_tests.log)"
tail -2 /tmp/confirm_${ID}_seeded.log | cut -c1-200
git -C /repo worktree remove --force $WT; rm -rf $DEMO /tmp/confirm_${ID}_target /tmp/confirm_${ID}_target_ws
