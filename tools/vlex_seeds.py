#!/usr/bin/env python3
"""developer tool: run V-lex (all scheduled pairs) against each seeded change in a scratch worktree; prints which obligations fail"""
import sys, os, json, subprocess, shutil
ROOT = os.path.abspath(os.path.join(os.path.dirname(os.path.abspath(__file__)), '..'))
sys.path.insert(0, os.path.join(ROOT, 'lib'))
import vlex_engine as E, plan as P
WT = '/tmp/vlex_seed_wt'
def sh(*a, **k): return subprocess.run(a, capture_output=True, text=True, **k)
seeds = sys.argv[1:]
pairs = P.vlex_select(dict(defs=P.VLEX_ALL), 'thorough')
for sd in seeds:
    d = os.path.join(ROOT, 'seeded', sd)
    sh('git', '-C', '/repo', 'worktree', 'remove', '--force', WT)
    sh('git', '-C', '/repo', 'worktree', 'add', '--detach', WT, 'HEAD')
    r = sh('git', '-C', WT, 'apply', os.path.join(d, 'patch.diff'))
    if r.returncode: print(sd, 'patch does not apply'); continue
    work = os.path.join(ROOT, '.work')
    o = E.run(sorted(set(p[0] for p in pairs)), ['tailcall', 'state_machine'], WT, work, only=set(pairs))
    fails = {}
    und = []
    for r in o['results']:
        for f in r.get('failures', []):
            fails.setdefault('%s/%s' % (r['defn'], r['codegen']), []).append('%s %s' % (f.get('clause') or f['message'][:40], (f.get('code') or [''])[0][:50]))
        if r.get('status') == 'undecided': und.append('%s/%s: %s' % (r['defn'], r['codegen'], (r.get('reason') or '')[:80]))
    print('%-50s error=%s failing pairs=%d undecided=%d' % (sd, o['error'], len(fails), len(und)))
    for k in sorted(fails)[:6]: print('     ', k, fails[k][:2])
    for u in und[:3]: print('      UND', u)
    sys.stdout.flush()
    # the per-path target directories of the scratch worktree are not needed again
    import hashlib
    rp = hashlib.sha1(os.path.realpath(WT).encode()).hexdigest()[:8]
    for x in os.listdir(work):
        if x.startswith('vlex-target-' + rp): shutil.rmtree(os.path.join(work, x), ignore_errors=True)
sh('git', '-C', '/repo', 'worktree', 'remove', '--force', WT)
