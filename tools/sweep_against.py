#!/usr/bin/env python3
"""Developer tool: apply a patch to a scratch worktree of /repo, build the K-lex harness crate natively against it and run
the native sweep for some harness prefixes.  usage: sweep_against.py <patch.diff> <alphabet-hex> <prefix> [<prefix>...]"""
import sys, os, subprocess
sys.path.insert(0, os.path.join(os.path.dirname(os.path.abspath(__file__)), '..', 'lib'))
import kani_engine as K
patch, alpha, prefixes = (os.path.abspath(sys.argv[1]) if sys.argv[1] != '-' else '-'), sys.argv[2], sys.argv[3:]
WT = '/tmp/sweep_wt'
subprocess.run(['git', '-C', '/repo', 'worktree', 'remove', '--force', WT], capture_output=True)
subprocess.run(['git', '-C', '/repo', 'worktree', 'add', '-q', '--detach', WT, 'HEAD'], check=True)
try:
    if patch != '-': subprocess.run(['git', '-C', WT, 'apply', patch], check=True)
    d = K.prepare('lex', WT)
    subprocess.run([sys.executable, os.path.join(d, 'gen_list.py'), os.path.join(d, 'src', 'harness_list.rs')], check=True, cwd=d)   # the full list
    feats = os.environ.get('FEATURES', '')
    cmd = ['cargo', 'build', '--offline', '--release', '--bin', 'sweep', '--target-dir', '/tmp/sweep_target']
    if feats: cmd += ['--features', feats]
    p = subprocess.run(cmd, cwd=d, capture_output=True, text=True)
    if p.returncode != 0: print(p.stderr[-3000:]); sys.exit(2)
    for pre in prefixes:
        r = subprocess.run(['/tmp/sweep_target/release/sweep', pre, alpha], cwd=d, capture_output=True, text=True)
        lines = [l for l in r.stdout.splitlines() if not l.startswith('REPLAY-')]
        print('== %s: %s' % (pre, ' | '.join(lines[-4:])))
finally:
    subprocess.run(['git', '-C', '/repo', 'worktree', 'remove', '--force', WT], capture_output=True)
