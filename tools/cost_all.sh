#!/bin/bash
# developer: measure costs for the configurations and harnesses the plan needs (run via `vp run`), results in .work/cost_*.json
cd "$(dirname "$0")/.."
python3 tools/cost_table.py . 240 "" --missing
python3 tools/cost_table.py . 300 forbid_unsafe --max-default-cost 60 --defs B5,B7,B1,B2,S2,U1,E2,E1
python3 tools/cost_table.py . 400 state_machine_codegen --max-default-cost 25 --defs B1,B2,B4,B5,E1,S2,S3,K1,U1
python3 tools/cost_table.py . 300 verif_hooks --max-default-cost 60 --defs B1,B2,B3,B5,B7,E1,S1,S2,U1,K1,U2,E2,L2,I1,P1,Q1
