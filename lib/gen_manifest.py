#!/usr/bin/env python3
"""Regenerate MANIFEST.json from lib/plan.py (kept valid at all times)."""
import json, os, sys
HERE = os.path.dirname(os.path.abspath(__file__))
sys.path.insert(0, HERE)
import plan as P
ROOT = os.path.abspath(os.path.join(HERE, '..'))

NA = [
  ("C08", "deciding code (Graph::get_state_type over regex-automata match sets) is outside Verus (external DFA type, iterator adapters) and CBMC (DFA construction intractable); see DESIGN.md section 4"),
  ("C09", "Pattern::complexity recurses over regex_syntax::Hir with iterator adapters: outside Verus; Hir construction intractable in CBMC; see DESIGN.md section 4"),
  ("C16", "hyperproperty over HashMap iteration order; the order-erasing code uses closures/adapters outside Verus, a Kani run fixes one order; see DESIGN.md section 4"),
  ("C17", "syn/TokenStream rewriting and a process-level file protocol; no contract within reach of Verus or Kani; see DESIGN.md section 4"),
  ("C19", "panic-freedom of generate() over all token streams needs symbolic syn/proc-macro2 values; out of reach of both tools; see DESIGN.md section 4"),
]
ALL = ['C%02d' % i for i in range(1, 21)]

def main():
    checks = []
    for pid in sorted(P.PLAN):
        pl = P.PLAN[pid]
        checks.append(dict(
            property_id=pid,
            quick_cmd='./check %s --tier quick' % pid,
            thorough_cmd='./check %s --tier thorough' % pid,
            evidence_file='/verif/evidence/%s.json' % pid,
            replay_cmd_template='./check %s --replay {path}' % pid,
            engine=pl.get('engine', 'verus+kani'),
            level_claimed=dict(category=pl['level'], text=pl['level_text'], design_ref=pl.get('design_ref', 'DESIGN.md section 3')),
            level_note=pl['level_note'],
            technique=pl['technique'],
        ))
    na = [dict(property_id=p, reason=r) for p, r in NA]
    claimed = set(P.PLAN) | set(p for p, _ in NA)
    for p in ALL:
        if p not in claimed:
            na.append(dict(property_id=p, reason='not claimed (see DESIGN.md)'))
    m = dict(
        version=1,
        setup_cmd=P.SETUP_CMD,
        hooks=P.HOOKS,
        engines=P.ENGINES,
        checks=checks,
        not_applicable=sorted(na, key=lambda d: d['property_id']),
        notes='Contract-based deductive verification (Verus on text extracted mechanically from /repo on every run: the runtime crate, the byte-class algebra and - unit V-lex - the lexers logos_codegen::generate emits for a corpus of definitions) with Kani/CBMC as the '
              'memory-model back end and as the labelled bounded stand-in; see DESIGN.md. exit 2 = undecided (never an alarm).',
    )
    with open(os.path.join(ROOT, 'MANIFEST.json'), 'w') as f:
        json.dump(m, f, indent=1)
    print('MANIFEST.json: %d checks, %d not_applicable' % (len(checks), len(na)))
main()
