"""Which engines decide which property (see DESIGN.md section 3)."""

# the verif_hooks feature is always configured OUT for the Verus units: they verify the code as shipped
BOTH = [{'forbid_unsafe': False, 'verif_hooks': False}, {'forbid_unsafe': True, 'verif_hooks': False}]

TRUSTED_BASE = [
    'Verus 0.2026.09.13 (rust_verify, VIR/AIR encoding) and its bundled Z3',
    'vstd specifications of str, slices, Vec, Option, ranges, iterators',
    'Kani 0.68 / CBMC 6.11 object-bounds and arithmetic model (no unwinding beyond the stated bounds, no threads)',
    'rustc 1.98.1 type checking of the extracted text; rustc macro expansion of the real derive (K-lex)',
    'vx/extract.py: byte-for-byte copying plus the closed list of rewrites reported under extraction_rewrites',
    'regex-syntax 0.8 / regex-automata 0.4 (pattern semantics and DFA construction), syn, quote, proc-macro2',
]

ASSUMPTIONS = {
    '*': [
        'assumed contracts on std functions (assume_specification in vx/contracts/*.py): Option::is_some_and, Option::copied, str::get, '
        'str::get_unchecked, [T]::get_unchecked, [T]::as_ptr, str::as_ptr, <*const T>::add, RangeInclusive::start/end/clone',
        'axioms: a str / slice holds at most usize::MAX bytes; elems_of/idx_lo/idx_hi tie the generic SliceIndex specs to Range<usize>',
        'Chunk::from_ptr bodies (raw pointer dereference) and <&[u8;N]>::from_slice (TryFrom machinery) are external_body for Verus; '
        'they are exercised by the Kani K-src harnesses up to the stated length bound',
        'third-party Source / Chunk implementations are assumed to satisfy the trait contracts; the trait default body of '
        'Source::find_boundary is verified only as instantiated for [u8]',
        'impl<T: Deref> Source for T is not in the Verus unit (GAT unsupported): pure delegation, exercised by Kani only',
        'Logos::lex of every derived impl is assumed to satisfy the trait-level contract LEX; for the V-lex corpus definitions (callback-free) it is PROVED '
        'of the generated text for all inputs, for the others it is checked bounded (K-lex)',
        'V-lex: a byte slice holds at most isize::MAX bytes (axiom_vlex_u8_slice_len); the generated impl method `lex` is external_body and its body is '
        'verified as the free function `lex_body` carrying the same contract (rewrite L7); str definitions are verified with Source = [u8] (rewrite L6)',
        'machine integers are NOT treated as mathematical: Verus overflow obligations and Kani overflow checks are on',
        'user callbacks are assumed pure/total where a contract quantifies over them (con.requires for all arguments)',
    ],
}

SETUP_CMD = 'true'
HOOKS = dict(guard='cargo feature `verif_hooks` of the logos crate (off by default) and cfg(kani) (set only by cargo-kani)',
             enable='K-lex harness crate built with --features verif_hooks (C20, C04 thorough); `cargo kani` in /repo/logos-codegen compiles the cfg(kani) proof module',
             baseline_off_cmd='cd /repo && cargo test --workspace --no-fail-fast --offline',
             source_commits=['4f99db3', '10fc700'], add_only=True)
ENGINES = [
    dict(name='V-src', path='vx/contracts/v_src.py', serves_properties=['C01', 'C02', 'C03', 'C04', 'C05', 'C07', 'C12', 'C13', 'C14', 'C15'],
         kind_free_text='Verus on src/{source,lexer,internal,lib}.rs extracted mechanically by vx/extract.py, both forbid_unsafe configurations'),
    dict(name='V-skip', path='vx/contracts/v_skip.py', serves_properties=['C13'],
         kind_free_text='Verus on SkipRetVal::construct and From<SkipResult> (separate file because of a Verus name-resolution limit)'),
    dict(name='V-cg', path='vx/contracts/v_cg.py', serves_properties=['C01'],
         kind_free_text='Verus on ByteClass::{new,add_byte,to_table}, Comparisons, StateType of logos-codegen/src/graph/mod.rs'),
    dict(name='V-lex', path='vx/lexgen.py', serves_properties=['C02', 'C03', 'C05', 'C06', 'C07', 'C13', 'C14', 'C20'],
         kind_free_text='Verus on the text logos_codegen::generate emits (through /repo\'s logos-cli, rebuilt from the working tree on every run) for corpus '
                        'definitions, both code generators: every state function / the state-machine loop under contract; LEX, termination, overflow and '
                        'index safety proved for all inputs'),
    dict(name='K-src', path='kani/src_proofs', serves_properties=['C05', 'C14', 'C15'],
         kind_free_text='Kani harnesses over the public/doc(hidden) runtime API: memory model for the unsafe code, twins of loop-free Verus contracts, native replay'),
    dict(name='K-cg', path='kani/cg_proofs.rs', serves_properties=['C01'],
         kind_free_text='Kani harnesses path-included into logos-codegen under cfg(kani): impl_with_cmp, add_back_edge (bounded)'),
    dict(name='K-lex', path='kani/lex', serves_properties=['C01', 'C02', 'C03', 'C04', 'C05', 'C06', 'C07', 'C10', 'C11', 'C12', 'C13', 'C18', 'C20'],
         kind_free_text='Kani harnesses over real #[derive(Logos)] output for a corpus of definitions vs an executable specification (bounded stand-in)'),
]

# ---------------------------------------------------------------------------------------------------
# Kani suites

def _ksrc_read(tier, crate_dir=None):
    L = 40 if tier == 'thorough' else 16
    hs = []
    for n in range(0, L + 1):
        for k in (0, 1, 2, 8, 32): hs.append('read_n%d_k%d' % (n, k))
        if n <= 16:
            for k in (0, 1, 2, 8): hs.append('read_str_n%d_k%d' % (n, k))
        if n in (0, 1, 3, 9, 33) and n <= L:
            for k in (2, 8): hs.append('read_deref_n%d_k%d' % (n, k))
    return hs

def _ksrc_state(tier, crate_dir=None):
    ns = range(0, 13) if tier == 'thorough' else (0, 1, 4, 9)
    return ['state_n%d' % n for n in ns]

def _ksrc_bump(tier, crate_dir=None):
    ns = range(0, 13) if tier == 'thorough' else (0, 3, 7)
    return ['bump_twin_n%d' % n for n in ns] + ['bump_str'] + ['state_n%d' % n for n in ((0, 4, 9) if tier != 'thorough' else range(0, 13))]

# bump is specified to panic (whatever the message) on an invalid n: an explicit panic raised inside Lexer::bump is the one
# failure these harnesses allow - and require
BUMP_ALLOW = {r'bump_twin_n\d+|bump_str': {'panic_in': r'Lexer::<.*>::bump'}}

KSRC_STATE = dict(crate='src_proofs', pool=False, label='K-src lexer state', harnesses=_ksrc_state, configs=[(), ('forbid_unsafe',)],
                  bounded=lambda tier: 'real (unsafe and forbid_unsafe) slicing code under every wf state of sources of length <= %d; state symbolic, length bounded' % (12 if tier == 'thorough' else 9))
KSRC_BUMP = dict(crate='src_proofs', pool=False, label='K-src bump twin', harnesses=_ksrc_bump, configs=[(), ('forbid_unsafe',)],
                 allow=BUMP_ALLOW, expect=BUMP_ALLOW,
                 bounded=lambda tier: 'bump over all (start, end, n) incl. overflowing n, sources of length <= %d; a fixed 11-byte str with 1-4 byte chars' % (12 if tier == 'thorough' else 7))
KSRC_READ = dict(crate='src_proofs', pool=False, label='K-src Source::read', harnesses=_ksrc_read, configs=[(), ('forbid_unsafe',)],
                 bounded=lambda tier: 'Source::read on exactly sized buffers of every length 0..=%d, chunk sizes 0/1/2/8/32, offset fully symbolic over usize (loop-free: complete in offset, bounded in length)' % (40 if tier == 'thorough' else 16))

def _ksrc_boundary(tier, crate_dir=None):
    return ['find_boundary_str', 'find_boundary_bytes_n0', 'find_boundary_bytes_n1', 'find_boundary_bytes_n5']

KSRC_BOUNDARY = dict(crate='src_proofs', pool=False, label='K-src find_boundary', harnesses=_ksrc_boundary, configs=[(), ('forbid_unsafe',)],
                     bounded='Source::find_boundary / is_boundary on a fixed 21-byte str holding 1-, 2-, 3- and 4-byte characters (every index, symbolic) and on byte buffers of length 0, 1, 5')

def _bump_candidates():
    out = []
    M = (1 << 64) - 1
    def le(x): return list(x.to_bytes(8, 'little'))
    for (N, h) in ((3, 'bump_twin_n3'), (7, 'bump_twin_n7'), (0, 'bump_twin_n0')):
        for s in range(0, N + 1):
            for e in range(s, N + 1):
                for n in (N - e + 1, 100, M - e, M - e + 1, M - 1, M):
                    if n < 0 or n > M: continue
                    out.append((h, [[0]] * N + [le(s), le(e), le(n)]))
    return out

# ---------------------------------------------------------------------------------------------------
# K-lex: harness selection from the generated index and the measured cost table (kani/lex/costs.json)

import os as _os, json as _json
_ROOT = _os.path.abspath(_os.path.join(_os.path.dirname(_os.path.abspath(__file__)), '..'))

def _costs(config):
    p = _os.path.join(_ROOT, 'kani', 'lex', 'costs.json')
    if not _os.path.exists(p): return {}
    return _json.load(open(p)).get(config, {})

def _cover_map(config):
    p = _os.path.join(_ROOT, 'kani', 'lex', 'costs.json')
    if not _os.path.exists(p): return {}
    return _json.load(open(p)).get('covers:' + config, {})

def klex_select(kinds, defs, quick_cost=40, quick_per_def=5, thorough_cost=300, config='default', names=None, covers=(), always=()):
    """-> callable(tier, crate_dir) -> harness names.  Only harnesses with a measured cost are eligible: a harness whose
    cost on the unchanged tree is unknown or above the tier's budget is never scheduled (it could only time out)."""
    def sel(tier, crate_dir):
        idx = _json.load(open(_os.path.join(crate_dir, 'src', 'harness_index.json')))
        costs = _costs(config)
        out = []
        for d in defs:
            cand = [(costs[h], h) for h, m in idx.items()
                    if m['d'] == d and m['kind'] in kinds and costs.get(h) is not None and (names is None or names(h, m))]
            cand.sort()
            if tier == 'thorough':
                out += [h for c, h in cand if c <= thorough_cost]
            else:
                # quick: distinct inputs first - the cover-carrying twins (specc_/ctxc_/skelc_) repeat the input of their
                # plain variant and are only added by the cover rule below; attempts from the start of the context before
                # attempts from inside it; then by cost
                plain = [(idx[h].get('s', 0), c, h) for c, h in cand if c <= quick_cost and not idx[h]['kind'].endswith('c')]
                plain.sort()
                picked = []
                for k in kinds:
                    for s_, c, h in plain:
                        if idx[h]['kind'] == k and h not in picked:
                            picked.append(h); break
                for s_, c, h in plain:
                    if len(picked) >= quick_per_def: break
                    if h not in picked: picked.append(h)
                out += picked
        for h in always:       # inputs that exercise a mechanism no cheaper harness reaches (e.g. two full 8-byte batches)
            if h in idx and costs.get(h) is not None and h not in out: out.append(h)
        # vacuity: for every required cover label schedule the cheapest harness known to satisfy it
        cm = _cover_map(config)
        for label in covers:
            if any(label in cm.get(h, []) for h in out): continue
            cand = sorted((costs[h], h) for h, m in idx.items() if m['d'] in defs and m['kind'] in kinds and costs.get(h) is not None and label in cm.get(h, []))
            if cand: out.append(cand[0][1])
        return out
    return sel

def klex_timeout(config='default'):
    def t(h, tier):
        c = _costs(config).get(h) or 60
        return max(900, int(12 * c))
    return t

def klex_suite(label, kinds, defs, covers=(), configs=((),), configs_quick=None, bounded='', **kw):
    cfgname = lambda f: '+'.join(f) or 'default'
    # one suite per configuration, because costs (hence the selection) differ per configuration
    suites = []
    for tier_cfgs, only in ((configs, None),):
        for f in tier_cfgs:
            suites.append(dict(crate='lex', label='%s [%s]' % (label, cfgname(f)), configs=[f],
                               harnesses=klex_select(kinds, defs, config=cfgname(f), covers=(list(covers) if f == () or f == ('verif_hooks',) else ()), **kw), timeout=klex_timeout(cfgname(f)),
                               covers=list(covers) if f == () or f == ('verif_hooks',) else [], bounded=bounded,
                               quick=(configs_quick is None or f in configs_quick)))
    return suites

# ---------------------------------------------------------------------------------------------------
# V-lex: (definition, code generator) pairs, from the measured table vx/vlex_costs.json (a pair that did not verify on the
# unchanged tree within the budget is never scheduled - it is reported as not covered, not as a failure)

def _vlex_costs():
    p = _os.path.join(_ROOT, 'vx', 'vlex_costs.json')
    return _json.load(open(p)) if _os.path.exists(p) else {}

def vlex_select(spec, tier):
    costs = _vlex_costs()
    budget = spec.get('quick_s', 30) if tier == 'quick' else spec.get('thorough_s', 120)
    out = []
    for d in (spec['defs'] if tier == 'quick' else spec.get('defs_thorough', spec['defs'])):
        for cg in spec.get('codegens', ('tailcall', 'state_machine')):
            c = costs.get('%s/%s' % (d, cg))
            if c and c.get('status') == 'ok' and (c.get('wall_s') or 1e9) <= budget:
                out.append((d, cg))
    return out

def vlex_not_covered(spec):
    costs = _vlex_costs()
    return sorted('%s/%s' % (d, cg) for d in spec.get('defs_thorough', spec['defs']) for cg in spec.get('codegens', ('tailcall', 'state_machine'))
                  if (costs.get('%s/%s' % (d, cg)) or {}).get('status') != 'ok')

VLEX_ALL = ['K1', 'B1', 'B2', 'B3', 'B4', 'B5', 'B6', 'B7', 'B8', 'E1', 'E3', 'S1', 'S2', 'S3', 'L1', 'I2', 'P2', 'P2T', 'M1B', 'M2B', 'O3', 'O3A', 'Q3', 'Q4',
            'L2', 'I1', 'P1', 'P1T', 'Q1', 'Q2', 'U1', 'U2', 'E2']
VLEX_NOTE = ('V-lex: the text logos_codegen::generate emits (obtained through /repo\'s logos-cli on every run) for the corpus definitions %s, '
             'both code generators where the state-machine loop stays within the solver budget, is proved - for ALL inputs, no length bound - to satisfy the '
             'trait-level contract LEX and the LexerInternal preconditions, incl. termination (decreases), no arithmetic overflow, no out-of-bounds table index. '
             'str definitions are verified with `type Source = [u8]` (rewrite L6): everything except the char-boundary conjuncts.')

SPEC_KINDS = ('spec', 'specc', 'ctx', 'ctxc', 'skel', 'skelc')
BYTE_DEFS = ['B1', 'B2', 'B3', 'B4', 'B5', 'B6', 'B7', 'B8', 'E1', 'E3']
SKIP_DEFS = ['S1', 'S2', 'S3']
STR_DEFS = ['U1', 'U2', 'E2']
BOUND_NOTE = ('corpus definitions %s; inputs: fully symbolic bytes up to the listed length (spec_*), or a concrete context with '
              '1-3 symbolic bytes (ctx_*), or skip skeletons (skel_*); one next() per harness from a concrete start; '
              'every harness is listed with its input shape in kani_harnesses')

TWINS = {
    'find_boundary_twin': dict(crate='src_proofs', harnesses=['find_boundary_str', 'find_boundary_bytes_n5']),
    'read_twin': dict(crate='src_proofs', harnesses=['read_n3_k0', 'read_n9_k8', 'read_n3_k2', 'read_n1_k1', 'read_str_n9_k8', 'read_str_n3_k2', 'read_n33_k32']),
    'state_twin': dict(crate='src_proofs', harnesses=['state_n4', 'state_n1']),
    'bump_twin': dict(crate='src_proofs', harnesses=['bump_twin_n3', 'bump_twin_n0', 'bump_twin_n7', 'state_n4'], allow=BUMP_ALLOW,
                      native_candidates=_bump_candidates),
}

SRC_TWINS = {
    'Lexer::bump': 'bump_twin',
    'str::find_boundary': 'find_boundary_twin', '[u8]::find_boundary': 'find_boundary_twin', 'str::is_boundary': 'find_boundary_twin',
    '[u8]::is_boundary': 'find_boundary_twin', 'Lexer(LexerInternal)::end_to_boundary': 'find_boundary_twin',
    'str::read': 'read_twin', '[u8]::read': 'read_twin', 'Lexer(LexerInternal)::read': 'read_twin',
    'Lexer::slice': 'state_twin', 'Lexer::remainder': 'state_twin', 'Lexer::span': 'state_twin', 'Lexer::morph': 'state_twin',
    'Lexer(Clone)::clone': 'state_twin',
}

def _c20_state_machine():
    return klex_suite('K-lex read trace (state machine)', SPEC_KINDS, ['K1', 'S2', 'S3', 'B2', 'B5'],
                      configs=(('state_machine_codegen', 'verif_hooks'),), quick_per_def=5, quick_cost=40,
                      bounded=BOUND_NOTE % 'K1 (incl. a callback that bumps and skips), S2, S3, B2, B5 under state_machine_codegen with the read-trace monitor')

PLAN = {
    'C01': dict(
        level='model_checking', engine='verus+kani',
        verus=[('v_cg', [{}]), ('v_src', BOTH)],
        twins=SRC_TWINS,
        kani=klex_suite('K-lex maximal munch', SPEC_KINDS, BYTE_DEFS + SKIP_DEFS + STR_DEFS + ['K1', 'Q2', 'Q4'],
                        always=['ctx_B5_abcdefghi_q_s0'],
                        covers=['token produced', 'error produced', 'end of input reached', 'token after a skipped region'],
                        bounded=BOUND_NOTE % 'B1-B5, E1, S1, S2, U1, U2, E2, K1')
             + [dict(crate='cg', label='K-cg byte-class rendering', pool=False, module='graph::verif_proofs', crate_dir='logos-codegen',
                     harnesses=lambda tier, crate_dir=None: ['cg_impl_with_cmp_k1', 'cg_impl_with_cmp_k2', 'cg_add_back_edge_n0', 'cg_add_back_edge_n2', 'cg_add_back_edge_n3'] + (['cg_impl_with_cmp_k3'] if tier == 'thorough' else []),
                     timeout=lambda h, tier: 3000,
                     bounded='ByteClass::impl_with_cmp on well-formed classes of <= 2 (quick) / 3 (thorough) ranges with symbolic bounds; add_back_edge on sorted lists of <= 3 states')],
        technique='bounded model checking (Kani/CBMC) of the real derive output against an executable specification; Verus proofs of the byte-class algebra and of the tiling contract of Lexer::next',
        level_text='For each corpus definition and every explored input the real generated lexer (whole pipeline: parser, regex-syntax, regex-automata, '
                   'Graph::new, Generator) yields at the explored start position exactly the item the specification demands: longest non-empty match over '
                   'all patterns, variant/skip of the unique highest-priority pattern matching that prefix. Bounded (corpus x input shapes), labelled as such; '
                   'the byte-class algebra (add_byte, to_table) and next()\'s tiling are proved unbounded.',
        level_note='Not covered: definitions outside the corpus; inputs outside the listed shapes; regex-syntax/regex-automata are trusted; the hand translation '
                   'of corpus patterns into spec combinators is trusted (validated against the unchanged tree); Graph::new passes are covered only through their effect.',
        design_ref='DESIGN.md sections 2.3, 3 (C01)',
        explanation='K-lex harnesses compare one next() of the real lexer with spec::expected_item; V-cg proves ByteClass::add_byte/to_table; V-src proves the tiling contract',
    ),
    'C02': dict(
        vlex=dict(defs=['E1', 'E3', 'E2', 'B1', 'L1', 'U1'], codegens=('tailcall',), canary_defs=['E1']),
        level='model_checking', engine='verus+kani',
        verus=[('v_src', BOTH)],
        twins=SRC_TWINS,
        kani=[KSRC_BOUNDARY] + klex_suite('K-lex error spans', SPEC_KINDS, ['E1', 'E3', 'E2', 'B1', 'B2', 'U1', 'K2', 'L1'],
                        covers=['error produced', 'error longer than one byte'],
                        bounded=BOUND_NOTE % 'E1, E2, B1, B2, U1, K2, L1'),
        technique='Verus proof that str::find_boundary returns the least char boundary >= its argument (loop invariant) and that end_to_boundary stores it; Verus proof (V-lex) that every item of the generated corpus lexers - errors included - covers at least one byte and ends inside the source, for all inputs; bounded model checking (Kani) of error items against the specified span rule',
        level_text='Rounding of error ends is proved for all strings and offsets; that the generated error arm reports [p, max(first non-viable byte, p+1)) rounded up, '
                   'with the default / callback-supplied error value, is checked (bounded) on the corpus.',
        level_note='Viability is computed by the spec combinators (prefix closure of each pattern); look-around patterns are not in the corpus.',
        design_ref='DESIGN.md section 3 (C02)',
        explanation='find_boundary / end_to_boundary contracts (V-src) + K-lex error-shaped corpus entries',
    ),
    'C03': dict(
        vlex=dict(defs=VLEX_ALL, quick_s=50, thorough_s=150, canary_defs=['B1', 'S3']),
        level='model_checking', engine='verus+kani',
        verus=[('v_src', BOTH)],
        twins=SRC_TWINS,
        kani=klex_suite('K-lex progress and tiling', SPEC_KINDS, ['B1', 'B2', 'B5', 'E1', 'S1', 'S2', 'S3', 'U1', 'Q1', 'Q2', 'Q3', 'Q4', 'O2'],
                        covers=['end of input reached', 'token produced', 'token after a skipped region'],
                        bounded=BOUND_NOTE % 'B1, B2, B5, E1, S1, S2, U1, Q1, O2'),
        technique='Verus proof that Iterator::next tiles the input for every lex satisfying the trait contract LEX; Verus proof (V-lex), for all inputs, that the code generated for 33 corpus definitions (callbacks under an assumed callback contract) satisfies LEX and terminates (contracts on every state function / the state-machine loop, decreases measures); bounded model checking (Kani) of LEX and of the skip-only gaps for the rest of the corpus',
        level_text='Proved for every token type whose lex meets LEX: each item starts at or after the previous end, is non-empty and inside the source, None leaves an empty span at the end. '
                   'LEX itself (non-empty items, None exactly at end of input, termination of every attempt) is PROVED for all inputs for the generated code of 33 corpus definitions '
                   '(tail-call generator: all 33; state-machine generator: 24) and checked bounded on the rest; that gaps consist of skip matches only is checked bounded (specification chains skips).',
        level_note='The clause "no definition with an empty-matching pattern is accepted" is not decided (Graph::new / regex-automata out of reach). The quantifier over definitions is a corpus, not all definitions.',
        design_ref='DESIGN.md section 3 (C03)',
        explanation='LEX contract on Logos::lex, proved-from in V-src (Lexer::next, SpannedIter::next), checked-against in K-lex',
    ),
    'C04': dict(
        level='model_checking', engine='verus+kani',
        verus=[('v_src', BOTH)],
        twins=SRC_TWINS,
        kani=[KSRC_BOUNDARY] + klex_suite('K-lex char boundaries', SPEC_KINDS, ['U1', 'U2', 'E2', 'L2', 'I1', 'P1', 'Q1'],
                        covers=['token produced', 'error produced'],
                        configs=((), ('verif_hooks',)), configs_quick=((),),
                        bounded=BOUND_NOTE % 'U1, U2, E2, L2, I1, P1, Q1 (all valid UTF-8 inputs of the listed shapes)'),
        technique='Verus proof that every hand-written function that moves token_start/token_end keeps both on char boundaries under the interface preconditions; bounded model checking (Kani) that generated code honours those preconditions on str-mode definitions',
        level_text='Unbounded proof for src/lexer.rs and src/source.rs (slice/remainder never slice off a boundary; bump panics instead; error ends are rounded); '
                   'bounded check that derived lexers only call end(o) with o on a boundary (monitored by the verif_hooks feature in the thorough tier) and that every observable span end is a boundary.',
        level_note='The acceptance clause (str-mode definitions matching invalid UTF-8 are rejected) is not decided (regex-syntax Hir properties).',
        design_ref='DESIGN.md section 3 (C04)',
        explanation='wf invariant includes boundary(token_start/end); K-lex asserts is_boundary on every span end over valid UTF-8 inputs',
    ),
    'C05': dict(
        vlex=dict(defs=['B5', 'B7', 'B8', 'B1', 'E1', 'S1', 'Q2'], defs_thorough=VLEX_ALL, canary_defs=['B5']),
        level='model_checking', engine='verus+kani',
        verus=[('v_src', BOTH)],
        twins=SRC_TWINS,
        kani=[KSRC_READ, KSRC_STATE, KSRC_BOUNDARY]
             + klex_suite('K-lex memory safety', SPEC_KINDS, ['B5', 'B7', 'B8', 'B1', 'B2', 'S2', 'U1', 'E2', 'E1'], always=['ctx_B5_abcdefghi_q_s0'],
                          covers=['token produced'], configs=((), ('forbid_unsafe',)),
                          bounded=BOUND_NOTE % 'B5 (lengths 0..10, crossing the 8-byte batch), B1, B2, S2, U1, E1; exactly sized stack arrays; default and forbid_unsafe builds'),
        technique='Verus proof of the Source::read contract (all lengths, offsets, chunk sizes) and of slice/remainder bounds; Verus proof (V-lex) that generated code keeps token_end <= len, indexes its tables in bounds and never overflows its offset arithmetic, for all inputs; CBMC object-bounds checking of the real unsafe code on exactly sized buffers',
        level_text='The second sentence of the property is the proved postcondition of Source::read for str and [u8]; slice()/remainder() are proved in bounds under the invariant; '
                   'every raw read of the real code is checked by CBMC inside its object for len <= 40 (offset unconstrained); whole lexers are checked bounded in both builds against one specification (hence equal to each other), no panic reachable in the forbid_unsafe build.',
        level_note='Chunk::from_ptr bodies are trusted to Verus (Kani-checked); impl<T: Deref> Source for T is Kani-only.',
        design_ref='DESIGN.md section 3 (C05)',
        explanation='Source::read contract + Kani memory model on exactly sized buffers',
    ),
    'C06': dict(
        vlex=dict(defs=['B1', 'B2', 'B4', 'B5', 'B8', 'E3', 'S1', 'S3', 'Q2', 'Q3', 'E2', 'L1', 'U2'], defs_thorough=VLEX_ALL, canary_defs=['B2']),
        level='model_checking', engine='verus+kani',
        kani=klex_suite('K-lex both code generators', SPEC_KINDS, ['B1', 'B2', 'B4', 'B5', 'B8', 'E1', 'E3', 'S2', 'S3', 'K1', 'U1', 'Q2'],
                        covers=['token produced', 'error produced'], configs=((), ('state_machine_codegen',)), quick_per_def=9, quick_cost=25,
                        bounded=BOUND_NOTE % 'B1, B2, B4, B5, E1, S2, K1, U1 under the tail-call and the state-machine generator'),
        technique='bounded model checking (Kani/CBMC): the same harnesses against one deterministic specification under both code generators; Verus proof (V-lex) that the output of BOTH generators satisfies the same contract LEX for all inputs (not equality of results)',
        level_text='Both generated lexers are compared with the same specification (results, spans, callback invocation count and observed spans), so they agree on all explored inputs. Bounded.',
        level_note='The stack-space clause is not applicable (no contract language here expresses stack depth). Harness sets differ per generator where one of them is intractable for CBMC.',
        design_ref='DESIGN.md section 3 (C06)',
        explanation='same spec, two feature sets',
    ),
    'C07': dict(
        vlex=dict(defs=['Q1', 'Q2', 'Q3', 'Q4', 'B1', 'B2', 'E1', 'S2', 'U1'], codegens=('tailcall',), canary_defs=['Q2']),
        level='model_checking', engine='verus+kani',
        verus=[('v_src', BOTH)],
        twins=SRC_TWINS,
        kani=klex_suite('K-lex partial lexing', ('part',), ['Q1', 'Q2', 'Q3', 'Q4', 'B1', 'B2', 'E1', 'E3', 'S2', 'U1'],
                        covers=['partial lexer committed an item', 'partial lexer asked for more input'], quick_per_def=6,
                        always=['part_Q4__3b_0a_q_k2', 'part_Q4_a_2e_q_k2', 'part_Q3__23ab_20x_q_k2', 'part_Q3__23abc_20x_q_k3'],
                        bounded='relational: partial lexer over S[..k] vs one-shot lexer over S, every split point k of concrete contexts with a symbolic continuation byte; definitions Q1 (tests/partial.rs), B1, B2, E1, S2, U1'),
        technique='relational bounded model checking (Kani): partial lexer on every prefix vs the one-shot lexer; Verus proof (V-src + V-lex) that a partial None leaves a well-formed empty span at or after the attempt start, in the runtime and in the generated code of the corpus definitions, for all inputs',
        level_text='Commit clause: whatever a partial lexer yields equals the one-shot item (result, variant, span) and a None leaves an empty span at a position not past the next one-shot item; bounded. The promptness clause is not decided.',
        level_note='Promptness ("as soon as determined") needs a determinedness predicate over all continuations: not expressible here.',
        design_ref='DESIGN.md section 3 (C07)',
        explanation='partial_vs_full harness; LEX None-and-prefix clause in V-src',
    ),
    'C10': dict(
        level='model_checking', engine='kani',
        kani=klex_suite('K-lex literals and ignore(case)', SPEC_KINDS, ['L1', 'L2', 'I1', 'I2'],
                        covers=['token produced', 'error produced'], quick_per_def=24, quick_cost=100,
                        always=['ctx_I2__09d_q_s0', 'ctx_I2__09_q_s0', 'ctx_I2__00_q_s0'],
                        bounded=BOUND_NOTE % 'L1 (metacharacter literals, bytes >= 0x80), L2 (multi-byte literals), I1 (ignore(case) on token, regex, skip: Unicode simple folding), I2 (byte-string literals: ASCII folding)'),
        technique='bounded model checking (Kani) of corpus definitions against hand-expanded literal / case-variant specifications',
        level_text='Each #[token] literal of the corpus matches exactly its bytes; ignore(case) on token, regex and skip patterns matches exactly the hand-expanded case-variant language. Bounded, sample literals.',
        level_note='Literal::escape and Pattern::compile are not under contract (string formatting / regex-syntax).',
        design_ref='DESIGN.md section 3 (C10)',
        explanation='spec = lit(w) / expanded case variants',
    ),
    'C11': dict(
        level='model_checking', engine='kani',
        kani=klex_suite('K-lex subpatterns', ('twin',) + SPEC_KINDS, ['P1', 'P2', 'P3'],
                        covers=['twins: token', 'twins: error'], quick_per_def=8,
                        bounded='relational: subpattern definitions P1, P2 vs twins with references inlined by hand as (?u:..)/(?-u:..) groups, plus both vs the spec; concrete contexts with symbolic bytes'),
        technique='relational bounded model checking (Kani): subpattern definitions vs hand-inlined twins',
        level_text='Definitions using (?&name) lex identically to their hand-inlined twins (nested references, alternation followed by a suffix, inline (?i) inside a subpattern, byte-string subpattern). Bounded.',
        level_note='Undefined-name rejection is a compile-time outcome: not decided.',
        design_ref='DESIGN.md section 3 (C11)',
        explanation='twins_agree harness',
    ),
    'C12': dict(
        level='model_checking', engine='verus+kani',
        verus=[('v_src', BOTH)],
        twins=SRC_TWINS,
        kani=[KSRC_BOUNDARY] + klex_suite('K-lex str vs byte mode', ('modes',), ['U1', 'U2', 'M3', 'M4'],
                        covers=['modes: token', 'modes: error'], quick_per_def=8,
                        bounded='relational: U1/U2 in str mode vs utf8 = false twins over valid UTF-8 contexts with symbolic bytes'),
        technique='Verus proof that byte sources never round (find_boundary identity, is_boundary = index <= len); relational bounded model checking (Kani) of str/bytes twins',
        level_text='find_boundary on [u8] is proved to be the identity; twins agree on Ok tokens and spans, and byte-mode errors cover exactly the bytes of the str-mode error. Bounded.',
        level_note='Acceptance clause not decided.',
        design_ref='DESIGN.md section 3 (C12)',
        explanation='modes_agree harness',
    ),
    'C13': dict(
        vlex=dict(defs=['K1', 'S2', 'Q1'], codegens=('tailcall',), canary_defs=['K1']),
        level='model_checking', engine='verus+kani',
        verus=[('v_src', BOTH), ('v_skip', BOTH)],
        twins=SRC_TWINS,
        kani=klex_suite('K-lex callbacks', SPEC_KINDS, ['K1', 'K2'],
                        covers=['token produced', 'error produced', 'token after a skipped region'], quick_per_def=12,
                        bounded=BOUND_NOTE % 'K1 (one callback of every CallbackRetVal type, bump inside a callback), K2 (error callback, every SkipRetVal type)'),
        technique='Verus proof, generic in all type parameters, of the 12 CallbackRetVal::construct impls, the 4 SkipRetVal impls and From<SkipResult>; Verus proof (V-lex) that the generated dispatch of K1 (a callback of every CallbackRetVal type, bump inside callbacks), S2 (logos::skip) and Q1 (inline closure) keeps the lexer contract LEX for all inputs under an assumed callback contract; bounded model checking (Kani) of the generated dispatch with recording callbacks',
        level_text='Each construct impl is proved to map the callback value to Emit/Error/DefaultError/Skip exactly as the documented table says, for all values and type parameters; '
                   'that the generated leaf bodies call the callback once per winning match with span()/slice() equal to the match and apply the table row is checked bounded.',
        level_note='callbacks are assumed total (con.requires for all arguments).',
        design_ref='DESIGN.md section 3 (C13)',
        explanation='construct contracts + K1/K2 corpus',
    ),
    'C14': dict(
        vlex=dict(defs=['B1', 'B2'], codegens=('tailcall',), canary_defs=['B1']),
        level='proof',
        verus=[('v_src', BOTH)],
        twins=SRC_TWINS,
        kani=[KSRC_STATE] + klex_suite('K-lex call histories', ('hist',), ['B1B2'], covers=['history: an item after a morph', 'history: an item from a clone', 'history: an item from spanned()'], quick_per_def=6,
                                       bounded='real derived lexers B1/B2 over one source: next + morph (+ back), next + clone, spanned vs manual; concrete contexts with one symbolic byte'),
        engine='verus',
        technique='deductive verification (Verus/Z3) of requires/ensures contracts and a representation invariant on the real Lexer code, extracted mechanically each run; the assumed contract LEX of derived impls is itself proved (V-lex) for the generated code of corpus definitions',
        level_text='Every public operation of Lexer and SpannedIter (new*, span, slice, remainder, morph, clone, bump, next, spanned, deref) is proved, '
                   'for all inputs and all type parameters, to preserve the representation invariant and to satisfy a postcondition that fixes all '
                   'five state components; the property is the standard consequence for every finite call history. Proof level is right because '
                   'the functions are small, loop-free and fully within Verus.',
        level_note='Trusted: Verus+Z3, vstd, the assumed std contracts listed in the evidence, the extractor rewrites listed in the evidence; '
                   'derived lex impls are assumed to satisfy LEX and to be pure functions of (state, source); clone-continuation equality is a consequence under that assumption.',
        design_ref='DESIGN.md sections 2.2, 3 (C14)',
        explanation='representation invariant wf + frame-complete postconditions on every public Lexer/SpannedIter operation; '
                    'accessors are functions of the state in every wf state, hence after any finite call history',
    ),
    'C15': dict(
        level='proof',
        verus=[('v_src', BOTH)],
        twins=SRC_TWINS,
        kani=[KSRC_BUMP],
        engine='verus',
        technique='deductive verification (Verus/Z3) of the bump contract incl. overflow freedom and a state invariant at the panic point; Kani twin for the concrete input',
        level_text='bump is proved for all (state, n): it returns only with token_end == old + n as integers and the invariant intact, never overflows, '
                   'and at the point where it panics the lexer state is still valid, so slice()/remainder() after catch_unwind stay in bounds. '
                   'Verus checks arithmetic as the stricter of debug/release.',
        level_note='Trusted: Verus+Z3, vstd; the panic itself is modelled by an external_body diverging function whose precondition is the state invariant.',
        design_ref='DESIGN.md sections 2.2, 3 (C15), 6',
        explanation='bump contract: exact integer postcondition, no overflow on any path, state invariant at the panic point',
    ),
    'C18': dict(
        level='model_checking', engine='kani',
        kani=[dict(s, build_failure_is_violation=True) for s in
              klex_suite('K-lex argument order', ('twin',) + SPEC_KINDS, ['O1', 'O2', 'O3', 'O4'],
                         covers=['twins: token', 'twins: error'], quick_per_def=10,
                         bounded='relational, sampled: definitions O1 (token/regex/skip arguments) and O2 (one combined #[logos(..)] attribute) vs twins with permuted arguments (O1A, O1B, O2A); a permutation the derive rejects fails the build of the corpus crate and is reported as a violation')],
        technique='relational bounded model checking (Kani) of definitions whose attribute arguments are permuted; build outcome of the corpus crate',
        level_text='Sampled permutations only: the attribute parser works on proc-macro token trees and cannot be put under contract. Twins must build and lex identically.',
        level_note='weak: three permutations of two definitions.',
        design_ref='DESIGN.md section 3 (C18)',
        explanation='twins_agree on permuted definitions',
    ),
    'C20': dict(
        vlex=dict(defs=['B1', 'B2', 'B5', 'B7', 'E3', 'S1', 'S3', 'Q2', 'L1', 'U2'], defs_thorough=VLEX_ALL, canary_defs=['B5']),
        level='model_checking', engine='verus+kani',
        kani=klex_suite('K-lex read trace', SPEC_KINDS, ['B1', 'B2', 'B3', 'B5', 'B7', 'E1', 'E3', 'S1', 'S2', 'U1', 'K1', 'E2'],
                        covers=['C20 monitor: at least two reads traced', 'token produced'], configs=(('verif_hooks',),), quick_per_def=6, quick_cost=60,
                        always=['ctx_B7__23abcdefghijklmnopqrstuvwx_q_s0', 'ctx_B5_abcdefghijklmnop_q_s0', 'ctx_E2__q_q_q_s0'],
                        bounded=BOUND_NOTE % 'B1, B2, B3, B5, E1, S1, S2, U1, K1 with the ghost read-trace monitor of the verif_hooks feature'),
        kani_extra=None,
        technique='Verus proof (V-lex) with ghost state in the generated code of the corpus definitions: within an attempt the offsets passed to LexerInternal::read never decrease, for all inputs; bounded model checking (Kani) with a ghost read-trace monitor (feature verif_hooks): offsets never decrease within an attempt, never fall below its start, reads <= 4 x bytes examined + 4',
        level_text='Every source read goes through LexerInternal::read. Monotonicity of the read offsets within an attempt is proved for all inputs for the generated code of the V-lex corpus (ghost variable vlex_floor, assertions before every read and every transition); the linear bound on the number of reads and the start floor are asserted by the hook monitor after each explored next() - bounded.',
        level_note='the linear bound is checked on short inputs only, where a super-linear defect may stay below it; monotonicity is the sharper check.',
        design_ref='DESIGN.md section 3 (C20)',
        explanation='ghost state in src/verif_hooks.rs',
    ),
}

PLAN['C20']['kani'] = PLAN['C20']['kani'] + _c20_state_machine()
