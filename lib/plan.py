"""Which engines decide which property (see DESIGN.md section 3)."""

# the verif_hooks feature is always configured OUT for the Verus units: they verify the code as shipped
BOTH = [{'forbid_unsafe': False, 'verif_hooks': False}, {'forbid_unsafe': True, 'verif_hooks': False}]

TRUSTED_BASE = [
    'Verus 0.2026.09.13 (rust_verify, VIR/AIR encoding) and its bundled Z3',
    'vstd specifications of str, slices, Vec, Option, ranges, iterators',
    'Kani 0.68 / CBMC 6.11 object-bounds and arithmetic model (no unwinding beyond the stated bounds, no threads)',
    'rustc 1.98.1 type checking of the extracted text; rustc macro expansion of the real derive (K-lex)',
    'vx/extract.py: byte-for-byte copying plus the closed list of rewrites reported under extraction_rewrites',
    'regex-syntax 0.8 / regex-automata 0.4 (pattern semantics and DFA construction), syn, quote, proc-macro2',
]

ASSUMPTIONS = {
    '*': [
        'assumed contracts on std functions (assume_specification in vx/contracts/*.py): Option::is_some_and, Option::copied, str::get, '
        'str::get_unchecked, [T]::get_unchecked, [T]::as_ptr, str::as_ptr, <*const T>::add, RangeInclusive::start/end/clone',
        'axioms: a str / slice holds at most usize::MAX bytes; elems_of/idx_lo/idx_hi tie the generic SliceIndex specs to Range<usize>',
        'Chunk::from_ptr bodies (raw pointer dereference) and <&[u8;N]>::from_slice (TryFrom machinery) are external_body for Verus; '
        'they are exercised by the Kani K-src harnesses up to the stated length bound',
        'third-party Source / Chunk implementations are assumed to satisfy the trait contracts; the trait default body of '
        'Source::find_boundary is verified only as instantiated for [u8]',
        'impl<T: Deref> Source for T is not in the Verus unit (GAT unsupported): pure delegation, exercised by Kani only',
        'Logos::lex of every derived impl is assumed to satisfy the trait-level contract LEX (checked, bounded, for the K-lex corpus)',
        'machine integers are NOT treated as mathematical: Verus overflow obligations and Kani overflow checks are on',
        'user callbacks are assumed pure/total where a contract quantifies over them (con.requires for all arguments)',
    ],
}

SETUP_CMD = 'true'
HOOKS = dict(guard='none (no hook commits yet)', enable='n/a', baseline_off_cmd='cd /repo && cargo test --workspace --no-fail-fast --offline',
             source_commits=[], add_only=True)
ENGINES = [
    dict(name='V-src', path='vx/contracts/v_src.py', serves_properties=['C14', 'C15'],
         kind_free_text='Verus on src/{source,lexer,internal,lib}.rs extracted mechanically by vx/extract.py, both forbid_unsafe configurations'),
]

# ---------------------------------------------------------------------------------------------------
# Kani suites

def _ksrc_read(tier, crate_dir=None):
    L = 40 if tier == 'thorough' else 16
    hs = []
    for n in range(0, L + 1):
        for k in (1, 2, 8, 32): hs.append('read_n%d_k%d' % (n, k))
        if n <= 16:
            for k in (1, 2, 8): hs.append('read_str_n%d_k%d' % (n, k))
        if n in (0, 1, 3, 9, 33) and n <= L:
            for k in (2, 8): hs.append('read_deref_n%d_k%d' % (n, k))
    return hs

def _ksrc_state(tier, crate_dir=None):
    ns = range(0, 13) if tier == 'thorough' else (0, 1, 4, 9)
    return ['state_n%d' % n for n in ns]

def _ksrc_bump(tier, crate_dir=None):
    ns = range(0, 13) if tier == 'thorough' else (0, 3, 7)
    return ['bump_twin_n%d' % n for n in ns] + ['bump_str'] + ['state_n%d' % n for n in ((0, 4, 9) if tier != 'thorough' else range(0, 13))]

BUMP_ALLOW = {r'bump_twin_n\d+|bump_str': ['Invalid Lexer bump']}

KSRC_STATE = dict(crate='src_proofs', pool=False, label='K-src lexer state', harnesses=_ksrc_state, configs=[(), ('forbid_unsafe',)],
                  bounded=lambda tier: 'real (unsafe and forbid_unsafe) slicing code under every wf state of sources of length <= %d; state symbolic, length bounded' % (12 if tier == 'thorough' else 9))
KSRC_BUMP = dict(crate='src_proofs', pool=False, label='K-src bump twin', harnesses=_ksrc_bump, configs=[(), ('forbid_unsafe',)],
                 allow=BUMP_ALLOW, expect=BUMP_ALLOW,
                 bounded=lambda tier: 'bump over all (start, end, n) incl. overflowing n, sources of length <= %d; a fixed 11-byte str with 1-4 byte chars' % (12 if tier == 'thorough' else 7))
KSRC_READ = dict(crate='src_proofs', pool=False, label='K-src Source::read', harnesses=_ksrc_read, configs=[(), ('forbid_unsafe',)],
                 bounded=lambda tier: 'Source::read on exactly sized buffers of every length 0..=%d, chunk sizes 1/2/8/32, offset fully symbolic over usize (loop-free: complete in offset, bounded in length)' % (40 if tier == 'thorough' else 16))

def _bump_candidates():
    out = []
    M = (1 << 64) - 1
    def le(x): return list(x.to_bytes(8, 'little'))
    for (N, h) in ((3, 'bump_twin_n3'), (7, 'bump_twin_n7'), (0, 'bump_twin_n0')):
        for s in range(0, N + 1):
            for e in range(s, N + 1):
                for n in (N - e + 1, 100, M - e, M - e + 1, M - 1, M):
                    if n < 0 or n > M: continue
                    out.append((h, [[0]] * N + [le(s), le(e), le(n)]))
    return out

TWINS = {
    'bump_twin': dict(crate='src_proofs', harnesses=['bump_twin_n3', 'bump_twin_n0', 'bump_twin_n7', 'state_n4'], allow=BUMP_ALLOW,
                      native_candidates=_bump_candidates),
}

PLAN = {
    'C14': dict(
        level='proof',
        verus=[('v_src', BOTH)],
        kani=[KSRC_STATE],
        engine='verus',
        technique='deductive verification (Verus/Z3) of requires/ensures contracts and a representation invariant on the real Lexer code, extracted mechanically each run',
        level_text='Every public operation of Lexer and SpannedIter (new*, span, slice, remainder, morph, clone, bump, next, spanned, deref) is proved, '
                   'for all inputs and all type parameters, to preserve the representation invariant and to satisfy a postcondition that fixes all '
                   'five state components; the property is the standard consequence for every finite call history. Proof level is right because '
                   'the functions are small, loop-free and fully within Verus.',
        level_note='Trusted: Verus+Z3, vstd, the assumed std contracts listed in the evidence, the extractor rewrites listed in the evidence; '
                   'derived lex impls are assumed to satisfy LEX and to be pure functions of (state, source); clone-continuation equality is a consequence under that assumption.',
        design_ref='DESIGN.md sections 2.2, 3 (C14)',
        explanation='representation invariant wf + frame-complete postconditions on every public Lexer/SpannedIter operation; '
                    'accessors are functions of the state in every wf state, hence after any finite call history',
    ),
    'C15': dict(
        level='proof',
        verus=[('v_src', BOTH)],
        kani=[KSRC_BUMP],
        twins={'Lexer::bump': 'bump_twin'},
        engine='verus',
        technique='deductive verification (Verus/Z3) of the bump contract incl. overflow freedom and a state invariant at the panic point; Kani twin for the concrete input',
        level_text='bump is proved for all (state, n): it returns only with token_end == old + n as integers and the invariant intact, never overflows, '
                   'and at the point where it panics the lexer state is still valid, so slice()/remainder() after catch_unwind stay in bounds. '
                   'Verus checks arithmetic as the stricter of debug/release.',
        level_note='Trusted: Verus+Z3, vstd; the panic itself is modelled by an external_body diverging function whose precondition is the state invariant.',
        design_ref='DESIGN.md sections 2.2, 3 (C15), 6',
        explanation='bump contract: exact integer postcondition, no overflow on any path, state invariant at the panic point',
    ),
}
