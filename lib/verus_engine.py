"""Run one Verus unit (extract from /repo, verify, classify diagnostics)."""
import os, sys, json, re, subprocess, time, importlib.util

sys.path.insert(0, os.path.join(os.path.dirname(os.path.abspath(__file__)), '..', 'vx'))
import extract

SEMANTIC = (
    'postcondition not satisfied', 'precondition not satisfied', 'invariant not satisfied',
    'possible arithmetic underflow/overflow', 'assertion failed', 'decreases not satisfied',
    'possible division by zero', 'loop invariant', 'unreachable', 'assertion not satisfied',
    'cannot show invariant', 'arithmetic', 'unable to prove', 'might not be allowed',  'index out of bounds', 'possible bit shift underflow/overflow',
)
CHEATS = ('assume(', 'admit(', 'external_body', 'assume_specification', '#[verifier::external', 'external_fn_specification', 'external_type_specification')

def load_unit(path):
    sp = importlib.util.spec_from_file_location('unit_' + os.path.basename(path).replace('.', '_'), path)
    mod = importlib.util.module_from_spec(sp); sp.loader.exec_module(mod)
    return mod.UNIT

def cfg_tag(cfg):
    return '_'.join('%s%d' % (k[:6], int(bool(v))) for k, v in sorted(cfg.items()) if k != 'verif_hooks') or 'default'

def scan_cheats(path):
    out = []
    for n, line in enumerate(open(path), 1):
        t = line.strip()
        if t.startswith('//'): continue
        for c in CHEATS:
            if c in t:
                out.append('%d: %s' % (n, t[:160])); break
    return out

def _run_once(unit, repo, workdir, cfg, canary=False, rlimit=None, skip_bodies=()):
    """Returns dict(status=ok|fail|undecided, failures=[...], verified, errors, reason, times)"""
    name = unit['name'] + '_' + cfg_tag(cfg) + ('_canary' if canary else '')
    out_rs = os.path.join(workdir, name + '.rs')
    res = dict(unit=unit['name'], cfg=cfg, canary=canary, file=out_rs, failures=[], undecided=[], verified=0, errors=0)
    t0 = time.time()
    try:
        meta = extract.build_unit(unit, repo, cfg, out_rs, canary=canary, skip_bodies=skip_bodies)
    except extract.ExtractError as e:
        res.update(status='undecided', reason='extract: %s' % e, blame_fn=getattr(e, 'fn', None))
        return res
    except Exception as e:  # parser robustness: never an alarm
        res.update(status='undecided', reason='extract crashed: %r' % e)
        return res
    res['meta'] = meta
    cmd = ['verus', os.path.basename(out_rs), '--output-json', '--time', '--multiple-errors', '50', '--error-format=json']
    if rlimit: cmd += ['--rlimit', str(rlimit)]
    res['cmd'] = ' '.join(cmd)
    p = subprocess.run(cmd, cwd=workdir, capture_output=True, text=True)
    res['wall_s'] = time.time() - t0
    try:
        j = json.loads(p.stdout)
    except Exception:
        res.update(status='undecided', reason='verus produced no JSON (exit %d): %s' % (p.returncode, (p.stderr or p.stdout)[-2000:]))
        return res
    vr = j.get('verification-results', {})
    res['verified'] = vr.get('verified', 0); res['errors'] = vr.get('errors', 0)
    tm = j.get('times-ms', {})
    res['smt_ms'] = tm.get('smt', {}).get('total'); res['total_ms'] = tm.get('total')
    fb = []
    for mt in tm.get('smt', {}).get('smt-run-module-times', []):
        fb += mt.get('function-breakdown', [])
    res['functions'] = [dict(function=f['function'], ok=f['success'], ms=f['time'], rlimit=f.get('rlimit')) for f in fb]
    lm = meta['linemap']
    diags = []
    for line in p.stderr.splitlines():
        line = line.strip()
        if not line.startswith('{'):
            if 'panicked at' in line or 'internal error' in line:
                res['undecided'].append(line[:300])
            continue
        try: d = json.loads(line)
        except Exception: continue
        if d.get('$message_type') != 'diagnostic' or d.get('level') != 'error': continue
        if d['message'].startswith('aborting due to'): continue
        diags.append(d)
    for d in diags:
        msg = d['message']
        spans = d.get('spans', [])
        info = dict(message=msg, rendered=d.get('rendered', '')[:3000], fn=None, clause=None, src=[], lines=[])
        prim = [s for s in spans if s.get('is_primary')] or spans
        for s in prim + [s for s in spans if s not in prim]:
            ln = s.get('line_start')
            if not ln or ln > len(lm): continue
            e = lm[ln - 1]
            info['lines'].append(ln)
            # the function that owns the obligation is the one whose *source* text a span points into (the call site
            # for a precondition, the end of the body for a postcondition), not the declaration that states the clause
            if e.get('fn') and not info['fn'] and e.get('src') and not e.get('clause'): info['fn'] = e['fn']
            if e.get('clause') and not info['clause']: info['clause'] = e['clause']
            if e.get('src'): info['src'].append(e['src'])
        if not info['fn']:
            for s in spans:
                ln = s.get('line_start')
                if ln and ln <= len(lm) and lm[ln - 1].get('fn'):
                    info['fn'] = lm[ln - 1]['fn']; break
        if any(k in msg for k in SEMANTIC):
            res['failures'].append(info)
        else:
            res['undecided'].append('%s @ %s' % (msg[:300], info['src'] or info['lines']))
            if info['fn'] and not res.get('blame_fn'): res['blame_fn'] = info['fn']
    if vr.get('encountered-vir-error'):
        res['undecided'].append('verus reported a VIR (front-end) error')
    if res['undecided'] and not res['failures']:
        res.update(status='undecided', reason='; '.join(res['undecided'])[:2000])
    elif res['failures']:
        res['status'] = 'fail'
    elif vr.get('success') and res['errors'] == 0 and res['verified'] > 0:
        res['status'] = 'ok'
    else:
        res.update(status='undecided', reason='verus did not report success and gave no semantic diagnostic: exit %d %s' % (p.returncode, p.stderr[-1500:]))
    res['cheats'] = scan_cheats(out_rs)
    return res


def run_one(unit, repo, workdir, cfg, canary=False, rlimit=None):
    """Run the unit; when a function body cannot be handled (lost in-body anchor, construct the verifier does not support)
    retry with that body left unverified (external_body, contract kept), so that the rest of the unit is still decided.
    The functions given up are returned in res['gave_up'] - properties that depend on them are undecided, never violated."""
    gave_up = []
    r = None
    for _ in range(4):
        r = _run_once(unit, repo, workdir, cfg, canary=canary, rlimit=rlimit, skip_bodies=gave_up)
        fn = r.get('blame_fn')
        if r['status'] == 'undecided' and fn and fn not in gave_up:
            gave_up.append(fn); continue
        break
    r['gave_up'] = gave_up
    return r

def _canary_one(args):
    unit_path, repo, workdir, cfg, key = args
    unit = load_unit(unit_path)
    safe = re.sub(r'\W+', '_', key)
    u2 = dict(unit); u2['name'] = unit['name'] + '_cn_' + safe
    r = run_one(u2, repo, workdir, cfg, canary=key)
    failed = any(f['fn'] == key for f in r.get('failures', []))
    for ext in ('', '.map.json'):
        try: os.remove(r['file'] + ext)
        except OSError: pass
    return key, failed, r.get('status'), r.get('reason')

def canary_check(unit_path, repo, workdir, cfg, keys, jobs=16):
    """For each function key: adding `ensures false` must make exactly that function FAIL.
    Returns (vacuous keys, undecided keys, n_checked)."""
    from concurrent.futures import ProcessPoolExecutor
    vac, und = [], []
    with ProcessPoolExecutor(max_workers=jobs) as ex:
        for key, failed, status, reason in ex.map(_canary_one, [(unit_path, repo, workdir, cfg, k) for k in keys]):
            if failed: continue
            if status == 'ok': vac.append(key)
            else: und.append('%s: %s' % (key, reason))
    return vac, und, len(keys)
