"""check driver: ./check <Cxx> [--tier quick|thorough] [--replay <file>]

exit 0: every obligation generated for the property from /repo's current working tree was discharged
exit 1: a named obligation failed -> `VIOLATION property=<id> replay=<path>[ no-failing-input-found]`
exit 2: undecided (lost anchor, unsupported construct, resource limit, tool crash, vacuity guard) - never an alarm
"""
import os, sys, json, time, re, subprocess, hashlib

HERE = os.path.dirname(os.path.abspath(__file__))
ROOT = os.path.abspath(os.path.join(HERE, '..'))
sys.path.insert(0, HERE)
import verus_engine as V
import plan as P

REPO = os.environ.get('VERIF_REPO', '/repo')
WORK = os.path.join(ROOT, '.work')
REPLAYS = os.path.join(ROOT, 'replays')
# runs against a scratch copy (VERIF_REPO) never touch the evidence that gets committed
EVID = os.path.join(ROOT, 'evidence') if os.path.abspath(REPO) == '/repo' else os.path.join(WORK, 'evidence-scratch')

def log(*a):
    print(*a, flush=True)

def load_known():
    out = {'known': [], 'fixed': []}
    p = os.path.join(ROOT, 'known_findings.txt')
    if not os.path.exists(p): return out
    for line in open(p):
        line = line.strip()
        if not line or line.startswith('#'): continue
        m = re.match(r'(known|fixed):\s*property=(\S+)\s+(.*)$', line)
        if m: out[m.group(1)].append((m.group(2), m.group(3)))
    return out

def obligation_table(meta, prop):
    """(fn key -> list of clause ids it must establish) for functions tagged with `prop` that have a body."""
    fns = meta['fns']; inh = meta.get('inherits', {})
    clauses_by_fn = {}
    for cid in meta['inserted']:
        k = cid.split('.requires[')[0].split('.ensures[')[0].split('.loop')[0].split('.panic')[0].split('.closure')[0].split('.entry-proof')[0]
        clauses_by_fn.setdefault(k, []).append(cid)
    table = {}
    for key, fm in fns.items():
        if prop not in fm.get('props', []): continue
        if not fm.get('has_body') or fm.get('trusted'): continue
        own = [c for c in clauses_by_fn.get(key, []) if '.requires[' not in c and '.entry-proof' not in c]
        inherited = [c for c in clauses_by_fn.get(inh.get(key, ''), []) if '.ensures[' in c]
        table[key] = own + inherited + [key + '.body-safety']   # overflow, callee preconditions, termination
    return table

def run_verus(prop, tier, plan, ev, findings):
    """Run the Verus units of the plan.  Appends to findings: dict(kind, obligation, detail...)"""
    os.makedirs(WORK, exist_ok=True)
    undecided = []
    for (unit_file, cfgs) in plan.get('verus', []):
        unit_path = os.path.join(ROOT, 'vx', 'contracts', unit_file + '.py')
        unit = V.load_unit(unit_path)
        for cfg in cfgs:
            tag = '%s[%s]' % (unit['name'], V.cfg_tag(cfg))
            r = V.run_one(unit, REPO, WORK, cfg)
            if 'meta' not in r:
                undecided.append('%s: %s' % (tag, r.get('reason'))); continue
            meta = r['meta']
            table = obligation_table(meta, prop)
            n_obl = sum(len(v) for v in table.values())
            failed = set()
            other = []
            for f in r['failures']:
                key = f['fn']
                obl = f['clause'] or (key + '.body-safety' if key else None)
                name = '%s::%s::%s' % (tag, key, (f['clause'] or f['message']))
                if key in table:
                    failed.add((key, obl))
                    findings.append(dict(kind='verus', obligation=name, fn=key, clause=f['clause'], message=f['message'],
                                         src=f['src'], rendered=f['rendered'], unit=unit['name'], cfg=cfg,
                                         twin=(plan.get('twins') or {}).get(key)))
                else:
                    other.append(name)
            if r['status'] == 'undecided':
                undecided.append('%s: %s' % (tag, r.get('reason')))
            for g in r.get('gave_up', []):
                gp = meta['fns'].get(g, {}).get('props', [])
                ev.setdefault('gave_up', []).append('%s::%s' % (tag, g))
                if prop in gp:
                    undecided.append('%s: the body of %s could not be verified on this tree (lost anchor or unsupported construct); %s depends on it' % (tag, g, prop))
            ev['verus_runs'].append(dict(unit=tag, status=r['status'], functions_verified=r['verified'], function_errors=r['errors'],
                                         obligations_for_property=n_obl, failed=len(failed), smt_ms=r.get('smt_ms'), total_ms=r.get('total_ms'),
                                         wall_s=round(r.get('wall_s', 0), 2), checker_cmd=r.get('cmd'),
                                         failures_outside_property=other))
            ev['obligations'] += n_obl
            ev['discharged'] += n_obl - len(failed) if r['status'] != 'undecided' else 0
            ev['functions_under_contract'].update('%s (%s:%s)' % (k, meta['fns'][k]['file'], meta['fns'][k]['line']) for k in table)
            ev['samples'] += [dict(obligation='%s::%s' % (tag, c)) for k in sorted(table)[:3] for c in table[k][:2]]
            ev['rewrites'].update(meta['rewrites']); ev['dropped'].update(meta['dropped'])
            ev['assumptions_scanned'].update('%s: %s' % (os.path.basename(r['file']), c.split(': ', 1)[1]) for c in r.get('cheats', []))
            ev['trusted_fns'].update(k for k, fm in meta['fns'].items() if fm.get('trusted'))
            if n_obl == 0:
                undecided.append('%s: zero obligations generated for %s (vacuity guard)' % (tag, prop))
            # vacuity canaries: `ensures false` must fail for every function of this property
            keys = sorted(table)
            if tier == 'quick' and len(cfgs) > 1 and cfg is not cfgs[0]:
                keys = []       # quick: canaries on the first configuration only
            if keys and r['status'] != 'undecided':
                vac, und, n = V.canary_check(unit_path, REPO, WORK, cfg, keys)
                ev['canaries'].append(dict(unit=tag, checked=n, vacuous=vac, undecided=und))
                if vac: undecided.append('%s: canary `ensures false` verified for %s - contradictory precondition or assumption' % (tag, vac))
                if und: undecided.append('%s: canary undecided: %s' % (tag, und[:3]))
    return undecided

def run_vlex(prop, tier, plan, ev, findings):
    """V-lex: Verus on the code logos_codegen::generate emits for corpus definitions (lib/vlex_engine.py)"""
    spec = plan.get('vlex')
    if not spec: return []
    import vlex_engine as VL
    pairs = P.vlex_select(spec, tier)
    if not pairs: return ['V-lex: no (definition, generator) pair selected']
    undecided = []
    defs = sorted(set(d for d, _ in pairs)); cgs = sorted(set(c for _, c in pairs))
    # vacuity canaries: quick - `ensures false` on lex_body and the root state of the designated definitions;
    # thorough - on every function of the designated definitions and on lex_body / root of all the others
    cdefs = set(spec.get('canary_defs', defs[:2]))
    o = VL.run(defs, cgs, REPO, WORK, canaries=('lex_body', 'root'), only=set(pairs), canary_defs=(cdefs if tier == 'quick' else None),
               canaries_full_for=(cdefs if tier != 'quick' else ()))
    if o['error']:
        return ['V-lex: %s' % o['error'][:1500]]
    ev['rewrites'].update('V-lex prelude: ' + n for n in o['prelude_notes'])
    for r in o['results']:
        tag = 'V-lex[%s/%s]' % (r['defn'], r['codegen'])
        n_obl = len(r.get('inserted', [])) + len(r.get('fns', {}))
        failed = set()
        for f in r.get('failures', []):
            key = f.get('fn') or '?'
            where = (' at `%s`' % f['code'][0][:60]) if (not f.get('clause') and f.get('code')) else ''
            name = '%s::%s::%s%s' % (tag, key, f.get('clause') or f['message'], where)
            failed.add(name)
            findings.append(dict(kind='verus', obligation=name, fn=key, clause=f.get('clause'), message=f['message'], src=f.get('code'),
                                 rendered=f.get('rendered'), unit=tag, cfg=dict(codegen=r['codegen']), twin=None,
                                 vlex=dict(defn=r['defn'], codegen=r['codegen'])))
        if r.get('status') == 'undecided':
            undecided.append('%s: %s' % (tag, r.get('reason')))
        ev['verus_runs'].append(dict(unit=tag, status=r.get('status'), functions_verified=r.get('verified'), function_errors=r.get('errors'),
                                     obligations_for_property=n_obl, failed=len(failed), smt_ms=r.get('smt_ms'), total_ms=r.get('total_ms'),
                                     wall_s=r.get('wall_s'), checker_cmd=r.get('cmd'), states=r.get('n_states'), root=r.get('root'),
                                     eoi_targets=r.get('eoi_targets'), source_type=r.get('source_ty')))
        ev['obligations'] += n_obl
        ev['discharged'] += (n_obl - len(failed)) if r.get('status') in ('ok', 'fail') else 0
        ev['functions_under_contract'].update('%s (generated by logos_codegen::generate for corpus definition %s, %s)' % (k, r['defn'], r['codegen']) for k in r.get('fns', {}))
        ev['samples'] += [dict(obligation='%s::%s' % (tag, c)) for c in r.get('inserted', [])[:2]]
        ev['rewrites'].update('V-lex %s: %s' % (r['defn'], w) for w in r.get('rewrites', []) if not w.startswith('L4 dropped attribute'))
        ev['assumptions_scanned'].update('%s: %s' % (os.path.basename(r.get('file', tag)), c.split(': ', 1)[1]) for c in r.get('cheats', []))
        ev['assumptions_scanned'].update('V-lex %s: %s' % (r['defn'], a) for a in r.get('assumed', []))
        if r.get('status') == 'ok' and n_obl == 0:
            undecided.append('%s: zero obligations (vacuity guard)' % tag)
    vac = [c for c in o['canary_results'] if not c['failed_as_required']]
    ev['canaries'].append(dict(unit='V-lex', checked=len(o['canary_results']), vacuous=[c['tag'] for c in vac if c['status'] == 'ok'],
                               undecided=[c['tag'] for c in vac if c['status'] != 'ok']))
    for c in vac:
        if c['status'] == 'ok': undecided.append('V-lex: canary `ensures false` on %s verified (%s) - contradictory precondition' % (c['key'], c['tag']))
        else: undecided.append('V-lex: canary %s undecided: %s' % (c['tag'], c.get('reason')))
    return undecided

def write_replay(prop, f, extra=None):
    os.makedirs(REPLAYS, exist_ok=True)
    h = hashlib.sha1(f['obligation'].encode()).hexdigest()[:8]
    safe = re.sub(r'[^A-Za-z0-9_.-]+', '_', f['obligation'])[:80]
    path = os.path.join(REPLAYS, '%s-%s-%s.json' % (prop, safe, h))
    d = dict(property=prop, obligation=f['obligation'], engine=f['kind'], message=f.get('message'), source_lines=f.get('src'),
             verifier_output=f.get('rendered'), unit=f.get('unit'), cfg=f.get('cfg'))
    if extra: d.update(extra)
    with open(path, 'w') as fh: json.dump(d, fh, indent=1)
    return path

def main(argv):
    if len(argv) < 2:
        print(__doc__); return 2
    prop = argv[1]
    tier = os.environ.get('VERIF_TIER', 'quick')
    replay = None
    i = 2
    while i < len(argv):
        if argv[i] == '--tier': tier = argv[i + 1]; i += 2
        elif argv[i] == '--replay': replay = argv[i + 1]; i += 2
        else: i += 1
    seed = int(os.environ.get('VERIF_SEED', '0') or 0)
    if prop not in P.PLAN:
        log('property %s is not claimed (see MANIFEST.json not_applicable)' % prop); return 2
    plan = P.PLAN[prop]
    if replay:
        import kani_engine as K
        return K.replay(prop, replay, REPO)
    t0 = time.time()
    ev = dict(verus_runs=[], kani_runs=[], obligations=0, discharged=0, functions_under_contract=set(), samples=[], rewrites=set(),
              dropped=set(), assumptions_scanned=set(), trusted_fns=set(), canaries=[], bounded=[])
    findings = []
    undecided = []
    undecided += run_verus(prop, tier, plan, ev, findings)
    undecided += run_vlex(prop, tier, plan, ev, findings)
    if plan.get('kani'):
        import kani_engine as K
        undecided += K.run(prop, tier, plan, ev, findings, REPO, seed)
    # ---- verdict
    known = load_known()
    violations = []
    for f in findings:
        listed = [k for (p_, k) in known['known'] if p_ == prop and k.split()[0] in f['obligation']]
        if listed:
            log('KNOWN-FINDING: property=%s %s' % (prop, listed[0])); continue
        violations.append(f)
    # for Verus failures with a Kani twin, try to obtain a concrete failing input and replay it natively
    lines = []
    vlex_cex = {}
    for f in violations:
        extra = None; suffix = ' no-failing-input-found'
        if f['kind'] == 'verus' and f.get('twin'):
            try:
                import kani_engine as K
                cex = K.twin_counterexample(f['twin'], REPO)
            except Exception as e:
                cex = dict(error=repr(e))
            if cex and cex.get('native_reproduced'):
                extra = dict(counterexample=cex); suffix = ''
            elif cex:
                extra = dict(twin_attempt=cex)
        elif f['kind'] == 'verus' and f.get('vlex'):
            # Verus gives no model: search for a concrete failing input of the same definition natively (once per definition)
            k = (f['vlex']['defn'], f['vlex']['codegen'])
            if k not in vlex_cex:
                try:
                    import kani_engine as K
                    vlex_cex[k] = K.vlex_search(k[0], k[1], REPO) if len(vlex_cex) < 2 else None
                except Exception as e:
                    vlex_cex[k] = dict(error=repr(e))
            cex = vlex_cex[k]
            if cex and cex.get('native_reproduced'):
                extra = dict(counterexample=cex); suffix = ''
            elif cex:
                extra = dict(search_attempt=cex)
        elif f['kind'] == 'kani':
            if f.get('native_reproduced'): suffix = ''
            extra = dict(counterexample=f.get('counterexample'), harness=f.get('harness'), native=f.get('native'))
        path = write_replay(prop, f, extra)
        lines.append('VIOLATION property=%s replay=%s%s' % (prop, path, suffix))
    wall = time.time() - t0
    write_evidence(prop, tier, seed, plan, ev, len(violations), undecided, wall)
    for u in undecided: log('UNDECIDED: ' + u)
    for l in lines: log(l)
    if lines:
        for f in violations[:6]:
            log('--- failed obligation: %s\n%s' % (f['obligation'], (f.get('rendered') or '')[:1500]))
        return 1
    if undecided: return 2
    log('OK property=%s tier=%s obligations=%d discharged=%d kani_harnesses=%d wall=%.1fs' %
        (prop, tier, ev['obligations'], ev['discharged'], len(ev['kani_runs']), wall))
    return 0

def write_evidence(prop, tier, seed, plan, ev, nviol, undecided, wall):
    os.makedirs(EVID, exist_ok=True)
    level = plan['level']
    kani_ok = [k for k in ev['kani_runs'] if k.get('status') == 'ok']
    cov = dict(
        obligations=ev['obligations'], discharged=ev['discharged'],
        checker_cmd='; '.join(sorted(set([r['checker_cmd'] for r in ev['verus_runs'] if r.get('checker_cmd')] +
                                         [k['cmd'] for k in ev['kani_runs'] if k.get('cmd')])))[:4000] or 'none',
        trusted_base=P.TRUSTED_BASE,
        functions_under_contract=sorted(ev['functions_under_contract']),
        verus_runs=ev['verus_runs'],
        kani_harnesses=[dict((k_, v_) for k_, v_ in k.items() if k_ != 'cmd') for k in ev['kani_runs']],
        bounded=ev['bounded'],
        cover_points=ev.get('cover_points', []),
        canaries=ev['canaries'],
        samples=((ev['samples'][:8] + [dict(harness=k['harness'], config=k.get('config'), status=k.get('status'), cbmc_checks=k.get('checks'), seconds=k.get('time_s')) for k in ev['kani_runs'][:10]]) or [dict(note='no obligations generated')]),
        extraction_rewrites=sorted(ev['rewrites']), extraction_dropped=sorted(ev['dropped']),
        trusted_functions=sorted(ev['trusted_fns']),
        undecided=undecided,
        functions_given_up=ev.get('gave_up', []),
        additional_failing_harnesses=ev.get('additional_failures', []),
        explanation=plan.get('explanation', ''),
        # exploration-style keys (required for model_checking fallback): one evaluation = one obligation or one harness run
        evaluations=ev['obligations'] + len(ev['kani_runs']),
        distinct_nontrivial=ev['discharged'] + len(kani_ok),
        rule='an evaluation is one Verus obligation (a contract clause a function of this property must establish, or its body-safety VC) '
             'or one Kani harness instance; it counts as non-trivial when it was discharged / verified with every cover point satisfied; '
             'obligations are distinct by (unit, cfg, function, clause), harnesses by (harness, configuration)',
        exhaustive=False,
    )
    if kani_ok or ev['kani_runs']:
        # CBMC does not report explored states/transitions (symbolic search): the exploration-style keys above are the
        # coverage record for the model-checking level; the number of CBMC properties checked is given for information
        cov['cbmc_properties_checked'] = sum(k.get('checks', 0) or 0 for k in ev['kani_runs'])
        cov['harness_inputs'] = 'see kani_harnesses[*].harness: spec_<Def>_n<N>_s<S> = all inputs of N bytes; ctx_<Def>_<context> = concrete bytes with _q marking a fully symbolic byte; hex escapes _xx'
    d = dict(property_id=prop, tier=tier, seed=seed, level=level, coverage=cov,
             assumptions=sorted(ev['assumptions_scanned']) + P.ASSUMPTIONS.get(prop, []) + P.ASSUMPTIONS['*'],
             wall_s=round(wall, 2), violations=nviol)
    with open(os.path.join(EVID, prop + '.json'), 'w') as fh:
        json.dump(d, fh, indent=1)

if __name__ == '__main__':
    sys.exit(main(sys.argv))
