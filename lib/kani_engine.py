"""Kani back end: build a harness crate against /repo's working tree, run selected harnesses, parse results,
obtain concrete inputs (concrete playback) and replay them natively against the real code."""
import os, re, sys, json, shutil, subprocess, time, hashlib

HERE = os.path.dirname(os.path.abspath(__file__))
ROOT = os.path.abspath(os.path.join(HERE, '..'))
WORK = os.path.join(ROOT, '.work')
FILTER = re.compile(r'aborting path|nwinding loop|^warning|^\s*\||^\s*=|^\s*-->|^\s*$')

def _env():
    e = dict(os.environ)
    e['CARGO_NET_OFFLINE'] = 'true'
    e.pop('RUSTUP_TOOLCHAIN', None)
    return e

def prepare(crate, repo, tag=''):
    """Copy kani/<crate> to .work/kani/<crate><tag>, pointing its logos dependency at `repo`."""
    src = os.path.join(ROOT, 'kani', crate)
    key = hashlib.sha1(os.path.abspath(repo).encode()).hexdigest()[:6]
    dst = os.path.join(WORK, 'kani', '%s%s-%s' % (crate, tag, key))
    os.makedirs(dst, exist_ok=True)
    for rootd, dirs, files in os.walk(src):
        dirs[:] = [d for d in dirs if d not in ('target',)]
        rel = os.path.relpath(rootd, src)
        os.makedirs(os.path.join(dst, rel), exist_ok=True)
        for f in files:
            if f in ('Cargo.lock', 'harness_list.rs', 'harness_index.json', 'only.txt') or f.endswith('.new'): continue
            sp = os.path.join(rootd, f); dp = os.path.join(dst, rel, f)
            data = open(sp, 'rb').read()
            if f == 'Cargo.toml':
                data = data.replace(b'"/repo', b'"' + os.path.abspath(repo).encode())
            if not os.path.exists(dp) or open(dp, 'rb').read() != data:
                open(dp, 'wb').write(data)
    lock = os.path.join(repo, 'Cargo.lock')
    if os.path.exists(lock) and not os.path.exists(os.path.join(dst, 'Cargo.lock')):
        shutil.copy(lock, os.path.join(dst, 'Cargo.lock'))
    gen = os.path.join(dst, 'gen_list.py')
    if os.path.exists(gen) and not os.path.exists(os.path.join(dst, 'src', 'harness_list.rs')):
        subprocess.run([sys.executable, gen, os.path.join(dst, 'src', 'harness_list.rs')], check=True, cwd=dst)
    return dst

def restrict(crate_dir, names):
    """Emit only the selected harnesses into the crate (the complete index is regenerated alongside)."""
    gen = os.path.join(crate_dir, 'gen_list.py')
    if not os.path.exists(gen): return
    only = os.path.join(crate_dir, 'only.txt')
    open(only, 'w').write('\n'.join(sorted(set(names))) + '\n')
    tmp = os.path.join(crate_dir, 'src', 'harness_list.rs.new')
    subprocess.run([sys.executable, gen, tmp, only], check=True, cwd=crate_dir)
    cur = os.path.join(crate_dir, 'src', 'harness_list.rs')
    if not os.path.exists(cur) or open(cur).read() != open(tmp).read():
        os.replace(tmp, cur)
    else:
        os.remove(tmp)

def full_index(crate_dir):
    """name -> metadata for every harness the generator knows (independent of the current restriction)."""
    gen = os.path.join(crate_dir, 'gen_list.py')
    p = os.path.join(crate_dir, 'src', 'harness_index.json')
    if os.path.exists(gen) and (not os.path.exists(p) or os.path.getmtime(p) < os.path.getmtime(gen)):
        tmp = os.path.join(crate_dir, 'src', 'harness_list.rs.idx')
        subprocess.run([sys.executable, gen, tmp], check=True, cwd=crate_dir)
        os.remove(tmp)
    return json.load(open(p)) if os.path.exists(p) else {}

def parse_terse(out):
    """-> dict harness -> dict(status, failed_checks=[(desc, where)], checks, failed, unreachable, time_s, covers={})"""
    res = {}
    cur = None
    threads = {}
    lines = out.splitlines()
    i = 0
    while i < len(lines):
        l = lines[i]
        tm = re.match(r'Thread (\d+): (.*)$', l)
        if tm:
            tid, rest = tm.group(1), tm.group(2)
            hm = re.match(r'Checking harness (\S+?)\.\.\.', rest)
            if hm:
                name = hm.group(1).split('::')[-1]
                threads[tid] = name
                res[name] = dict(status='unknown', failed_checks=[], checks=0, failed=0, unreachable=0, time_s=None, covers={}, playback=None)
                cur = None
            elif rest.strip() == '':
                cur = threads.get(tid)
            i += 1
            continue
        m = re.match(r'Checking harness (\S+?)\.\.\.', l)
        if m:
            cur = m.group(1).split('::')[-1]
            res[cur] = dict(status='unknown', failed_checks=[], checks=0, failed=0, unreachable=0, time_s=None, covers={}, playback=None)
        elif cur:
            m = re.match(r'\s*\*\* (\d+) of (\d+) failed(?: \((.*)\))?', l)
            if m and 'cover' not in l:
                res[cur]['failed'] = int(m.group(1)); res[cur]['checks'] = int(m.group(2))
                um = re.search(r'(\d+) unreachable', m.group(3) or '')
                if um: res[cur]['unreachable'] = int(um.group(1))
            m = re.match(r'\s*\*\* (\d+) of (\d+) cover properties satisfied', l)
            if m: res[cur]['covers_sat'] = int(m.group(1)); res[cur]['covers_total'] = int(m.group(2))
            m = re.match(r'Failed Checks: (.*)', l)
            if m and m.group(1).strip().startswith('"') and m.group(1).strip().endswith('"'):
                m = re.match(r'Failed Checks: "(.*)"\s*$', l)     # assert!(c, "msg") and panic!("msg") report the same text
            if m:
                where = lines[i + 1].strip() if i + 1 < len(lines) and lines[i + 1].strip().startswith('File:') else ''
                res[cur]['failed_checks'].append((m.group(1).strip(), where))
            m = re.match(r'Unsatisfied Covers?: (.*)', l) or re.match(r'Unsatisfiable Covers?: (.*)', l) or re.match(r'Unreachable Covers?: (.*)', l)
            if m: res[cur].setdefault('covers_unsat', []).append(m.group(1).strip())
            if l.startswith('VERIFICATION:- SUCCESSFUL'): res[cur]['status'] = 'ok'
            elif l.startswith('VERIFICATION:- FAILED'): res[cur]['status'] = 'fail'
            m = re.match(r'Verification Time: ([0-9.]+)s', l)
            if m: res[cur]['time_s'] = float(m.group(1))
            if l.startswith('Concrete playback unit test for'):
                vals = []
                j = i + 1
                while j < len(lines) and not lines[j].startswith('INFO:') and not lines[j].startswith('Checking harness') and not lines[j].startswith('Concrete playback unit test for'):
                    vm = re.match(r'\s*vec!\[([0-9, ]*)\],?\s*$', lines[j])
                    if vm and 'concrete_vals' not in lines[j]:
                        vals.append([int(x) for x in vm.group(1).split(',') if x.strip()])
                    j += 1
                if res[cur]['playback'] is None: res[cur]['playback'] = vals
        i += 1
    return res

def run_kani(crate_dir, harnesses, features=(), jobs=16, timeout=1800, playback=False, extra=(), module='proofs'):
    target = target_for(crate_dir, features)
    cmd = ['cargo', 'kani', '--output-format', 'terse', '--target-dir', target]
    if jobs and jobs > 1 and len(harnesses) > 1: cmd += ['-j', str(jobs)]
    if features: cmd += ['--features', ','.join(features)]
    if playback: cmd += ['-Z', 'concrete-playback', '--concrete-playback=print']
    cmd += list(extra)
    for h in harnesses: cmd += ['--harness', '%s::%s' % (module, h) if module else h]
    if harnesses: cmd += ['--exact']
    t0 = time.time()
    try:
        p = subprocess.run(cmd, cwd=crate_dir, capture_output=True, text=True, env=_env(), timeout=timeout)
        out = p.stdout + '\n' + p.stderr; rc = p.returncode; timed_out = False
    except subprocess.TimeoutExpired as e:
        out = ((e.stdout or b'').decode('utf8', 'replace') if isinstance(e.stdout, bytes) else (e.stdout or '')) + '\n'
        out += ((e.stderr or b'').decode('utf8', 'replace') if isinstance(e.stderr, bytes) else (e.stderr or ''))
        rc = -1; timed_out = True
    res = parse_terse(out)
    build_error = None
    if not res and ('error: could not compile' in out or 'error[' in out or 'error:' in out):
        build_error = '\n'.join(l for l in out.splitlines() if not FILTER.search(l))[-4000:]
    return dict(cmd=' '.join(cmd), results=res, wall_s=time.time() - t0, rc=rc, timed_out=timed_out, build_error=build_error, raw_tail=out[-3000:])

def build_native(crate_dir, features=(), release=False):
    target = os.path.join(WORK, 'native-target', os.path.basename(crate_dir) + ('-' + '-'.join(features) if features else ''))
    cmd = ['cargo', 'build', '--offline', '--bin', 'replay', '--target-dir', target]
    if release: cmd.append('--release')
    if features: cmd += ['--features', ','.join(features)]
    p = subprocess.run(cmd, cwd=crate_dir, capture_output=True, text=True, env=_env())
    if p.returncode != 0:
        return None, p.stderr[-3000:]
    return os.path.join(target, 'release' if release else 'debug', 'replay'), None

def hexvals(vals):
    return ','.join(''.join('%02x' % b for b in v) for v in vals)

def native_replay(crate_dir, harness, vals, features=()):
    """Run the harness body natively (debug and release) on the concrete values.  -> dict"""
    out = dict(harness=harness, input=hexvals(vals), runs=[])
    reproduced = False
    for rel in (False, True):
        exe, err = build_native(crate_dir, features, rel)
        if not exe:
            out['runs'].append(dict(profile='release' if rel else 'debug', error=err)); continue
        p = subprocess.run([exe, harness, hexvals(vals)], capture_output=True, text=True, timeout=120)
        out['runs'].append(dict(profile='release' if rel else 'debug', exit=p.returncode, output=(p.stdout + p.stderr)[-2000:]))
        if p.returncode == 1: reproduced = True
    out['native_reproduced'] = reproduced
    return out

# --------------------------------------------------------------------------------------------------
# suites

def shared_target():
    """One target directory for every Kani build (all crates, all feature sets): the host-side dependencies (syn,
    regex-automata, ...) are compiled once; cargo keeps the artifacts of different feature sets apart by fingerprint."""
    return os.path.join(WORK, 'kani-target', 'all')

def target_for(crate_dir, features):
    """One target directory per (crate, feature set): within it the newest goto binary of a harness is the current one,
    which spec_unwindset relies on (mangled loop ids contain a per-feature-set crate hash)."""
    return os.path.join(WORK, 'kani-target', os.path.basename(crate_dir) + ('-' + '-'.join(features) if features else ''))

BUILTIN_CHECK = re.compile(r'attempt to .* overflow|dereference failure|index out of bounds|out of bounds|unwinding assertion|'
                           r'division by zero|misaligned|invalid|NaN|pointer|memcpy|memmove|unreachable')

def _allowed(harness, desc, allow, where=''):
    """allow: {harness regex: [exact descriptions] or {'panic_in': <regex on the location>}}.  `panic_in` allows any *explicit*
    panic (whatever its message) raised inside the named function, but none of the checks the model checker adds itself."""
    for pat, spec in (allow or {}).items():
        if not re.match(pat + r'$', harness): continue
        if isinstance(spec, dict):
            if re.search(spec['panic_in'], where or '') and not BUILTIN_CHECK.search(desc): return True
        elif desc in spec: return True
    return False

def run_suite(suite, tier, repo, ev, findings, prop, seed=0):
    """suite: dict(crate, module, configs=[tuple(features)], configs_quick, harnesses=callable(tier, crate_dir)->[names],
                   allow={regex:[desc]}, expect={regex:[desc]}, covers=[labels that must be SATISFIED somewhere],
                   timeout=callable(harness)->seconds, label, bounded)"""
    undecided = []
    if tier == 'quick' and suite.get('quick') is False:
        return undecided
    if suite.get('crate_dir'):
        crate_dir = os.path.join(repo, suite['crate_dir'])       # harnesses compiled into a crate of the repository itself
    else:
        crate_dir = prepare(suite['crate'], repo)
    if not suite.get('crate_dir'): full_index(crate_dir)
    names = suite['harnesses'](tier, crate_dir)
    if names and not suite.get('crate_dir'): restrict(crate_dir, names)
    if not names:
        undecided.append('%s: no harness selected (no measured cost within the tier budget) - vacuity guard' % suite.get('label', suite['crate']))
        return undecided
    configs = suite.get('configs', [()]) if tier == 'thorough' else suite.get('configs_quick', suite.get('configs', [()]))
    for feats in configs:
        cfgname = '+'.join(feats) or 'default'
        tmo = suite.get('timeout')
        if suite.get('pool', True):
            # per-harness timeouts: run in groups of equal timeout
            groups = {}
            for h in names:
                groups.setdefault(int(tmo(h, tier)) if tmo else 900, []).append(h)
            results = {}; cmd = ''; build_error = None
            for t_, hs in sorted(groups.items()):
                r = run_pool(crate_dir, hs, features=feats, timeout=t_, module=suite.get('module', 'proofs'), extra=suite.get('extra', ()))
                results.update(r['results']); cmd = r['cmd']; build_error = build_error or r['build_error']
            r = dict(results=results, cmd=cmd, build_error=build_error, timed_out=False)
        else:
            r = run_kani(crate_dir, names, features=feats, timeout=(tmo(names[0], tier) if tmo else 1500), module=suite.get('module', 'proofs'), extra=suite.get('extra', ()))
        if r['build_error']:
            if suite.get('build_failure_is_violation'):
                findings.append(dict(kind='kani', obligation='%s[%s]::build' % (suite['crate'], cfgname),
                                     message='the corpus crate does not build: a definition accepted before is now rejected (or vice versa)',
                                     harness=None, config=cfgname, counterexample=None, native=None, native_reproduced=False,
                                     rendered=r['build_error'][-3000:], src=[]))
            else:
                undecided.append('kani build of %s [%s] failed: %s' % (suite['crate'], cfgname, r['build_error'][-1500:]))
            continue
        cover_seen = {}
        n_replayed = 0
        for h in names:
            res = r['results'].get(h)
            rec = dict(harness=h, config=cfgname, crate=suite['crate'], cmd=r['cmd'])
            if res is None or res['status'] in ('unknown', 'timeout'):
                rec['status'] = 'undecided'
                undecided.append('kani harness %s [%s]: no verdict (%s)' % (h, cfgname, (res or {}).get('status', 'not run') + ' ' + ((res or {}).get('error') or '')[-300:]))
                ev['kani_runs'].append(rec); continue
            descs = [d for d, _ in res['failed_checks']]
            unwind = [d for d in descs if 'unwinding assertion' in d]
            bad = [(d, w) for (d, w) in res['failed_checks'] if not _allowed(h, d, suite.get('allow'), w) and 'unwinding assertion' not in d]
            for pat, spec in (suite.get('expect') or {}).items():
                if re.match(pat + r'$', h):
                    if isinstance(spec, dict):
                        if not any(re.search(spec['panic_in'], w or '') and not BUILTIN_CHECK.search(d) for d, w in res['failed_checks']):
                            bad.append(('the specified panic is no longer reachable (no explicit panic inside %s)' % spec['panic_in'], ''))
                    else:
                        for dsc in spec:
                            if dsc not in descs:
                                bad.append(('expected check `%s` did not fire (the specified panic is no longer reachable)' % dsc, ''))
            rec.update(status='ok' if not bad else 'fail', checks=res['checks'], failed=len(bad), time_s=res['time_s'],
                       allowed_failures=[d for (d, w) in res['failed_checks'] if (d, w) not in bad and 'unwinding' not in d],
                       covers={k: v for k, v in res.get('covers', {}).items()})
            for k, v in res.get('covers', {}).items():
                if v == 'SATISFIED': cover_seen[k] = cover_seen.get(k, 0) + 1
            if unwind and not bad:
                rec['status'] = 'undecided'
                undecided.append('kani harness %s [%s]: unwinding bound too small (%s)' % (h, cfgname, unwind[0]))
            if res['checks'] == 0:
                rec['status'] = 'undecided'; undecided.append('kani harness %s [%s]: zero checks (vacuity guard)' % (h, cfgname))
            if bad and n_replayed >= suite.get('max_replays', 3):
                # further failing harnesses of the same suite are listed in the evidence; the first ones carry the replay
                ev.setdefault('additional_failures', []).append(dict(harness=h, config=cfgname, failed=['%s (%s)' % b for b in bad][:4]))
            elif bad:
                n_replayed += 1
                pb = run_pool(crate_dir, [h], features=feats, timeout=(tmo(h, tier) if tmo else 900) * 2, playback=True,
                              module=suite.get('module', 'proofs'), extra=suite.get('extra', ()))
                vals = (pb['results'].get(h) or {}).get('playback')
                nat = native_replay(crate_dir, h, vals, feats) if vals is not None else None
                findings.append(dict(kind='kani', obligation='%s[%s]::%s::%s' % (suite['crate'], cfgname, h, bad[0][0]),
                                     message='; '.join('%s (%s)' % b for b in bad)[:1500], harness=h, config=cfgname,
                                     counterexample=hexvals(vals) if vals is not None else None, native=nat,
                                     native_reproduced=bool(nat and nat.get('native_reproduced')),
                                     rendered='Kani: failed checks in harness %s [%s]:\n%s' % (h, cfgname, '\n'.join('  %s  %s' % b for b in bad)),
                                     src=[w for _, w in bad]))
            ev['kani_runs'].append(rec)
        missing = [c for c in suite.get('covers', []) if not cover_seen.get(c)]
        ev.setdefault('cover_points', []).append(dict(suite=suite.get('label', suite['crate']), config=cfgname, satisfied=cover_seen, required=suite.get('covers', [])))
        if missing:
            undecided.append('%s [%s]: cover point(s) never satisfied (vacuity guard): %s' % (suite.get('label', suite['crate']), cfgname, missing))
        if suite.get('bounded'):
            ev['bounded'].append('%s [%s]: %s' % (suite.get('label', suite['crate']), cfgname, suite['bounded'](tier) if callable(suite['bounded']) else suite['bounded']))
    return undecided

def run(prop, tier, plan, ev, findings, repo, seed):
    undecided = []
    for suite in plan.get('kani', []):
        undecided += run_suite(suite, tier, repo, ev, findings, prop, seed)
    return undecided

def twin_counterexample(twin, repo):
    """Concrete input for a failed loop-free Verus obligation: Kani twin first, then a small native candidate sweep."""
    import plan as P
    spec = P.TWINS[twin]
    crate_dir = prepare(spec['crate'], repo)
    r = run_kani(crate_dir, spec['harnesses'], playback=True, timeout=600, module=spec.get('module', 'proofs'))
    for h in spec['harnesses']:
        res = r['results'].get(h)
        if not res: continue
        bad = [(d, w) for (d, w) in res['failed_checks'] if not _allowed(h, d, spec.get('allow'), w)]
        if bad and res.get('playback') is not None:
            nat = native_replay(crate_dir, h, res['playback'], ())
            if nat['native_reproduced']:
                return dict(source='kani concrete playback', failed_checks=bad, crate=spec['crate'], **nat)
    # Kani reports arithmetic overflow as a failure of its own and cannot observe state after a panic (no unwinding):
    # sweep boundary candidates natively with the same harness body.
    for (h, vals) in spec.get('native_candidates', lambda: [])():
        nat = native_replay(crate_dir, h, vals, ())
        if nat['native_reproduced']:
            return dict(source='native sweep of boundary candidates over the harness body', crate=spec['crate'], **nat)
    return dict(source='none', native_reproduced=False)

def vlex_search(defn, codegen, repo, budget_s=240):
    """Verus gives no model.  For a V-lex obligation that failed on definition `defn`, search for a concrete failing input by
    running the K-lex harness bodies of the same definition natively (real lexer vs specification / relational checks) over
    all inputs drawn from a small alphabet (the bytes of the definition's harness contexts).  -> counterexample dict | None"""
    import itertools
    crate_dir = prepare('lex', repo, tag='-search')
    idx = full_index(crate_dir)
    names = sorted(h for h, m in idx.items() if m.get('d') == defn and m.get('kind') in ('spec', 'ctx', 'part') and m.get('sym', 0) <= 3)
    if not names: return None
    restrict(crate_dir, names)
    feats = ('state_machine_codegen',) if codegen == 'state_machine' else ()
    target = os.path.join(WORK, 'native-target', os.path.basename(crate_dir) + ('-' + '-'.join(feats) if feats else ''))
    cmd = ['cargo', 'build', '--offline', '--release', '--bin', 'sweep', '--target-dir', target]
    if feats: cmd += ['--features', ','.join(feats)]
    p = subprocess.run(cmd, cwd=crate_dir, capture_output=True, text=True, env=_env())
    if p.returncode != 0: return dict(error='native build failed: ' + p.stderr[-800:])
    alpha = set()
    for h in names:
        c = idx[h].get('ctx')
        if c: alpha.update(b for b in c.encode('utf-8') if b != ord('?'))
    for b in (0x20, 0x61, 0x30, 0x0a, 0x80): 
        if len(alpha) < 10: alpha.add(b)
    alpha = sorted(alpha)[:12]
    exe = os.path.join(target, 'release', 'sweep')
    t0 = time.time()
    for pre in ('ctx_%s_' % defn, 'part_%s_' % defn, 'spec_%s_' % defn):
        if time.time() - t0 > budget_s: break
        try:
            r = subprocess.run([exe, pre, ''.join('%02x' % b for b in alpha)], cwd=crate_dir, capture_output=True, text=True, timeout=budget_s)
        except subprocess.TimeoutExpired:
            continue
        for line in r.stdout.splitlines():
            m = re.match(r'FAIL (\S+) input=\[([0-9, ]*)\]', line)
            if m:
                vals = [[int(x)] for x in m.group(2).split(',') if x.strip()]
                rep = native_replay(crate_dir, m.group(1), vals, feats)
                return dict(harness=m.group(1), input=vals, crate='lex', features=list(feats), native=rep,
                            native_reproduced=bool(rep.get('native_reproduced')),
                            source='native search over the K-lex harness bodies of definition %s (alphabet %s); Verus gives no model' % (defn, ' '.join('%02x' % b for b in alpha)))
    return None

def replay(prop, path, repo):
    d = json.load(open(path))
    cex = d.get('counterexample')
    print('replay of %s: obligation %s' % (path, d.get('obligation')))
    if isinstance(cex, dict) and cex.get('harness'):
        harness, vals, crate, feats = cex['harness'], cex.get('input'), cex.get('crate', 'src_proofs'), tuple(cex.get('features', ()))
    elif d.get('harness') and cex:
        harness, vals, crate = d['harness'], cex, d['obligation'].split('[')[0]
        feats = tuple(f for f in (d['obligation'].split('[')[1].split(']')[0]).split('+') if f and f != 'default')
    else:
        print('no concrete input recorded (no-failing-input-found); verifier output follows:\n%s' % d.get('verifier_output'))
        return 1
    crate_dir = prepare(crate, repo)
    restrict(crate_dir, [harness])      # the crate may currently hold another selection of harnesses
    rc = 0
    for rel in (False, True):
        exe, err = build_native(crate_dir, feats, rel)
        if not exe: print('build failed: %s' % err); return 2
        p = subprocess.run([exe, harness, vals if isinstance(vals, str) else hexvals(vals)], capture_output=True, text=True)
        print('[%s] %s' % ('release' if rel else 'debug', (p.stdout + p.stderr).strip()))
        if p.returncode == 1: rc = 1
    return rc


# --------------------------------------------------------------------------------------------------
# own process pool over single-harness invocations in the regular output format (gives per-cover results;
# `cargo kani -j` only supports the terse format, which does not name the cover points)

def parse_regular(out):
    res = dict(status='unknown', failed_checks=[], checks=0, failed=0, unreachable=0, time_s=None, covers={}, playback=None)
    lines = out.splitlines()
    i = 0
    while i < len(lines):
        l = lines[i]
        if l.startswith('Check ') and i + 2 < len(lines):
            st = lines[i + 1].strip(); ds = lines[i + 2].strip()
            loc = lines[i + 3].strip() if i + 3 < len(lines) and lines[i + 3].strip().startswith('- Location:') else ''
            sm = re.match(r'- Status: (\w+)', st); dm = re.match(r'- Description: "(.*)"$', ds)
            if sm and dm:
                status, desc = sm.group(1), dm.group(1)
                if '.cover.' in l:
                    prev = res['covers'].get(desc)
                    if status == 'SATISFIED' or prev is None: res['covers'][desc] = status
                elif status == 'FAILURE':
                    d2 = desc[1:-1] if len(desc) > 1 and desc.startswith('\\"') else desc
                    res['failed_checks'].append((desc.strip('"\\'), loc.replace('- Location: ', '')))
            i += 3; continue
        m = re.match(r'\s*\*\* (\d+) of (\d+) failed(?: \((.*)\))?', l)
        if m:
            res['failed'] = int(m.group(1)); res['checks'] = int(m.group(2))
            um = re.search(r'(\d+) unreachable', m.group(3) or '')
            if um: res['unreachable'] = int(um.group(1))
        if l.startswith('VERIFICATION:- SUCCESSFUL'): res['status'] = 'ok'
        elif l.startswith('VERIFICATION:- FAILED'): res['status'] = 'fail'
        m = re.match(r'Verification Time: ([0-9.]+)s', l)
        if m: res['time_s'] = float(m.group(1))
        if l.startswith('Concrete playback unit test for'):
            vals = []
            j = i + 1
            while j < len(lines) and not lines[j].startswith('INFO:'):
                vm = re.match(r'\s*vec!\[([0-9, ]*)\],?\s*$', lines[j])
                if vm and 'concrete_vals' not in lines[j]:
                    vals.append([int(x) for x in vm.group(1).split(',') if x.strip()])
                j += 1
            if res['playback'] is None: res['playback'] = vals
        i += 1
    # de-duplicate failed checks
    seen = set(); fc = []
    for x in res['failed_checks']:
        if x not in seen: seen.add(x); fc.append(x)
    res['failed_checks'] = fc
    return res

def spec_unwindset(target, h, bound=24, rec_bound=9):
    """The harness's #[kani::unwind] follows the input length (it also bounds the lexer's own recursion).  Loops of the
    specification evaluator depend on the *pattern* (number of patterns, alternatives, class ranges, literal bytes): they get
    their own, larger bound through CBMC's --unwindset, computed from the harness's goto binary."""
    import glob
    f = goto_binary(target, h)
    if not f: return None
    p = subprocess.run(['cbmc', '--show-loops', f], capture_output=True, text=True)
    loops = sorted(set(m.group(1) for m in re.finditer(r'^Loop (\S+?):$', p.stdout, re.M) if '5k_lex4spec' in m.group(1)))
    if not loops: return None
    prefix = loops[0].split('4spec')[0] + '4spec'
    items = ['%s:%d' % (l, bound) for l in loops]
    for fn in ('4ends', '5alive'):     # recursion bounds, only for functions present in this harness's binary
        if any(l.startswith(prefix + fn + '.') for l in loops): items.append('%s%s:%d' % (prefix, fn, rec_bound))
    return ','.join(items)

CBMC_FLAGS = ['--no-malloc-may-fail', '--no-undefined-shift-check', '--no-signed-overflow-check', '--nan-check',
              '--no-self-loops-to-assumptions', '--no-pointer-primitive-check', '--object-bits', '16',
              '--sat-solver', 'cadical', '--slice-formula']      # exactly what kani-driver 0.68 passes (taken from its process list)

def goto_binary(target, h):
    import glob
    cands = glob.glob(os.path.join(target, 'kani', '*', 'debug', 'build', '*', '*', 'out', '*proofs*%s.out' % h))
    cands = [c for c in cands if re.search(r'proofs\d+%s\.out$' % re.escape(h), c) and not c.endswith('.inst.out')]
    return max(cands, key=os.path.getmtime) if cands else None

def parse_cbmc_json(text):
    """CBMC --json-ui output of a Kani goto binary -> the same record parse_regular produces.
    Kani's instrumentation: propertyClass `cover`: FAILURE means the cover point is SATISFIED; `reachability_check`: FAILURE means
    reachable (used only to tell UNREACHABLE checks apart); `unwind`: unwinding assertion; everything else is a real check."""
    res = dict(status='unknown', failed_checks=[], checks=0, failed=0, unreachable=0, time_s=None, covers={}, playback=None)
    try:
        doc = json.loads(text)
    except Exception as e:
        res['error'] = 'cbmc output is not JSON: %r' % e
        return res
    for x in doc:
        if 'result' in x:
            for r in x['result']:
                loc = r.get('sourceLocation', {}) or {}
                cls = loc.get('propertyClass') or r.get('property', '').rsplit('.', 2)[-2] if '.' in r.get('property', '') else ''
                desc = re.sub(r'^\[KANI_CHECK_ID_[^\]]*\]\s*', '', r.get('description', ''))
                if cls == 'reachability_check': continue
                if cls == 'cover':
                    st = 'SATISFIED' if r['status'] == 'FAILURE' else ('UNSATISFIABLE' if r['status'] == 'SUCCESS' else r['status'])
                    if st == 'SATISFIED' or desc not in res['covers']: res['covers'][desc] = st
                    continue
                res['checks'] += 1
                if r['status'] == 'FAILURE':
                    where = '%s:%s in function %s' % (loc.get('file', '?'), loc.get('line', '?'), loc.get('function', '?'))
                    res['failed_checks'].append((desc.strip('"'), where))
        if 'cProverStatus' in x:
            res['status'] = 'ok' if x['cProverStatus'] == 'success' else 'fail'
        if x.get('messageType') == 'ERROR':
            res['error'] = (res.get('error', '') + ' ' + x.get('messageText', ''))[-1500:]
    seen = set(); fc = []
    for y in res['failed_checks']:
        if y not in seen: seen.add(y); fc.append(y)
    res['failed_checks'] = fc; res['failed'] = len(fc)
    if res['status'] == 'fail' and not fc:
        res['status'] = 'ok'         # only cover / reachability instrumentation "failed"
    if res.get('error') and res['status'] != 'ok' and not fc:
        res['status'] = 'unknown'
    return res

def instrument(f):
    """The steps kani-driver 0.68 performs between code generation and CBMC (taken from `cargo kani --verbose`): set the entry
    point, add the C library models, give undefined functions an assert-false body and drop unused functions, normalise loops.
    Written to a separate file so that kani-driver's own artifacts stay untouched."""
    out = f[:-4] + '.inst.out'
    if os.path.exists(out) and os.path.getmtime(out) >= os.path.getmtime(f): return out, None
    mangled = '_' + os.path.basename(f)[:-4].split('__', 1)[1]
    steps = [['goto-cc', f, '--function', mangled, '-o', out],
             ['goto-instrument', '--add-library', '--no-malloc-may-fail', out, out],
             ['goto-instrument', '--generate-function-body-options', 'assert-false-assume-false', '--generate-function-body', '.*', '--drop-unused-functions', out, out],
             ['goto-instrument', '--ensure-one-backedge-per-target', out, out]]
    for st in steps:
        p = subprocess.run(st, capture_output=True, text=True)
        if p.returncode != 0:
            try: os.remove(out)
            except OSError: pass
            return None, '%s failed: %s' % (st[0], (p.stderr or p.stdout)[-500:])
    return out, None

def _one_cbmc(args):
    crate_dir, target, h, unwind, timeout, n_in = args
    f0 = goto_binary(target, h)
    if not f0:
        return h, dict(status='unknown', failed_checks=[], checks=0, failed=0, covers={}, playback=None, time_s=None, error='no goto binary for %s' % h, wall_s=0, cmd='')
    f, err = instrument(f0)
    if not f:
        return h, dict(status='unknown', failed_checks=[], checks=0, failed=0, covers={}, playback=None, time_s=None, error=err, wall_s=0, cmd='')
    cmd = ['cbmc'] + CBMC_FLAGS + ['--unwind', str(unwind)]
    us = spec_unwindset(target, h, bound=max(24, n_in + 4))
    if us: cmd += ['--unwindset', us]
    cmd += [f, '--json-ui']
    t0 = time.time()
    try:
        p = subprocess.run(cmd, capture_output=True, text=True, timeout=timeout)
        r = parse_cbmc_json(p.stdout)
        if r['status'] == 'unknown' and not r.get('error'): r['error'] = (p.stderr or p.stdout)[-800:]
    except subprocess.TimeoutExpired:
        r = dict(status='timeout', failed_checks=[], checks=0, failed=0, covers={}, playback=None, time_s=None)
    r['wall_s'] = time.time() - t0
    r['time_s'] = round(r['wall_s'], 2)
    r['cmd'] = 'cbmc %s --unwind %s [--unwindset <spec loops>:24] <goto binary of %s> --json-ui' % (' '.join(CBMC_FLAGS), unwind, h)
    return h, r

def _one(args):
    crate_dir, target, h, module, feats, timeout, playback, extra = args
    cmd = ['cargo', 'kani', '--target-dir', target, '--harness', '%s::%s' % (module, h), '--exact']
    if feats: cmd += ['--features', ','.join(feats)]
    if playback: cmd += ['-Z', 'concrete-playback', '--concrete-playback=print']
    cmd += list(extra)
    us = spec_unwindset(target, h)
    if us: cmd += ['-Z', 'unstable-options', '--cbmc-args', '--unwindset', us]
    t0 = time.time()
    try:
        p = subprocess.run(cmd, cwd=crate_dir, capture_output=True, text=True, env=_env(), timeout=timeout)
        out = p.stdout + '\n' + p.stderr
        r = parse_regular(out)
        if r['status'] == 'fail' and not r['failed_checks']:
            r['status'] = 'unknown'       # CBMC / driver error, not a property failure
        if r['status'] == 'unknown':
            r['error'] = '\n'.join(l for l in out.splitlines() if not FILTER.search(l))[-1500:]
    except subprocess.TimeoutExpired:
        r = dict(status='timeout', failed_checks=[], checks=0, failed=0, covers={}, playback=None, time_s=None)
    r['wall_s'] = time.time() - t0
    r['cmd'] = ' '.join(cmd)
    return h, r

def run_pool(crate_dir, harnesses, features=(), jobs=16, timeout=900, playback=False, extra=(), module='proofs'):
    from concurrent.futures import ThreadPoolExecutor
    target = target_for(crate_dir, features)
    t0 = time.time()
    # build once (codegen only) so that the parallel invocations find everything compiled
    cmd = ['cargo', 'kani', '--target-dir', target, '--only-codegen']
    if features: cmd += ['--features', ','.join(features)]
    cmd += list(extra)
    p = subprocess.run(cmd, cwd=crate_dir, capture_output=True, text=True, env=_env())
    if p.returncode != 0:
        out = p.stdout + '\n' + p.stderr
        return dict(cmd=' '.join(cmd), results={}, wall_s=time.time() - t0, rc=p.returncode, timed_out=False,
                    build_error='\n'.join(l for l in out.splitlines() if not FILTER.search(l))[-4000:])
    results = {}
    idx = full_index(crate_dir)
    if not playback and all(h in idx and idx[h].get('unwind') for h in harnesses):
        # CBMC is run directly on the goto binaries kani-driver produced in the codegen step: `cargo kani --harness X`
        # recompiles the whole crate for every X (the harness filter is a compiler flag), which serialises the pool
        with ThreadPoolExecutor(max_workers=jobs) as ex:
            for h, r in ex.map(_one_cbmc, [(crate_dir, target, h, idx[h]['unwind'], timeout, idx[h].get('n', 0)) for h in harnesses]):
                results[h] = r
        return dict(cmd='cargo kani --only-codegen%s; then per harness: cbmc %s --unwind <len+3> [--unwindset <spec loops>:24] <harness goto binary> --json-ui  (x%d, %d parallel)'
                        % ((' --features ' + ','.join(features)) if features else '', ' '.join(CBMC_FLAGS), len(harnesses), jobs),
                    results=results, wall_s=time.time() - t0, rc=0, timed_out=any(r['status'] == 'timeout' for r in results.values()), build_error=None)
    with ThreadPoolExecutor(max_workers=jobs) as ex:
        for h, r in ex.map(_one, [(crate_dir, target, h, module, features, timeout, playback, extra) for h in harnesses]):
            results[h] = r
    return dict(cmd='cargo kani --target-dir %s --harness %s::<name> --exact%s  (x%d, %d parallel)' % (target, module, (' --features ' + ','.join(features)) if features else '', len(harnesses), jobs),
                results=results, wall_s=time.time() - t0, rc=0, timed_out=any(r['status'] == 'timeout' for r in results.values()), build_error=None)
