"""V-lex engine: Verus on the text `logos_codegen::generate` emits for corpus definitions (see vx/lexgen.py).

For every (definition, code generator) pair: build /repo's logos-cli from the working tree, run it on the enum item
copied from the K-lex corpus, transform (vx/lexgen.py), append to the V-src unit (so the generated code is checked
against the contracts V-src proves the runtime from), run Verus, map diagnostics back to named clauses.
"""
import os, sys, json, re, subprocess, time, importlib.util
from concurrent.futures import ProcessPoolExecutor

HERE = os.path.dirname(os.path.abspath(__file__))
ROOT = os.path.abspath(os.path.join(HERE, '..'))
sys.path.insert(0, os.path.join(ROOT, 'vx'))
sys.path.insert(0, HERE)
import lexgen, extract
import verus_engine as V

DEFS_DIR = os.path.join(ROOT, 'kani', 'lex', 'src', 'defs')

# name -> (corpus file, bytes_view)
#   bytes_view=True: a `str` definition verified with `type Source = [u8]` (rewrite L6): everything except the
#   char-boundary conjuncts of the invariant.
CORPUS = {
    'B1': ('basic.rs', False), 'B2': ('basic.rs', False), 'B3': ('basic.rs', False), 'B4': ('basic.rs', False),
    'B5': ('basic.rs', False), 'B6': ('basic.rs', False), 'B7': ('basic.rs', False), 'B8': ('basic.rs', False),
    'E1': ('basic.rs', False), 'E3': ('basic.rs', False),
    'K1': ('callbacks.rs', False),
    'S1': ('skip.rs', False), 'S2': ('skip.rs', False), 'S3': ('skip.rs', False),
    'L1': ('literal.rs', False), 'I2': ('literal.rs', False),
    'P2': ('twins.rs', False), 'P2T': ('twins.rs', False), 'M1B': ('twins.rs', False), 'M2B': ('twins.rs', False),
    'O3': ('twins.rs', False), 'O3A': ('twins.rs', False), 'Q3': ('twins.rs', False),
    'L2': ('literal.rs', True), 'I1': ('literal.rs', True),
    'P1': ('twins.rs', True), 'P1T': ('twins.rs', True), 'Q1': ('twins.rs', True), 'Q2': ('twins.rs', True), 'Q4': ('twins.rs', False),
    'U1': ('utf8.rs', True), 'U2': ('utf8.rs', True), 'E2': ('utf8.rs', True),
}
RLIMIT = int(os.environ.get('VLEX_RLIMIT', '100'))
TIMEOUT_S = int(os.environ.get('VLEX_TIMEOUT', '240'))
CODEGENS = {'tailcall': (), 'state_machine': ('state_machine_codegen',)}

def _load_vsrc():
    sp = importlib.util.spec_from_file_location('v_src_contracts', os.path.join(ROOT, 'vx', 'contracts', 'v_src.py'))
    m = importlib.util.module_from_spec(sp); sp.loader.exec_module(m)
    return m

PRELUDE_PATCHES = [
    # (old, new, note) - applied to the V-src text; each must match exactly once
    ("type Error: Default + Clone + PartialEq + 'source;", "type Error: Default + 'source;",
     'prelude: the bounds `Clone + PartialEq` on Logos::Error are dropped (Verus has no Clone/PartialEq impl for `()`); no contract mentions them'),
]
PRELUDE_HEAD = ('extern crate self as logos;\n')
PRELUDE_AXIOMS = '''
/// A byte slice never holds more than isize::MAX bytes (Rust allocation limit; std::slice::from_raw_parts safety condition).
#[verifier::external_body]
pub broadcast proof fn axiom_vlex_u8_slice_len(s: &[u8])
    ensures #[trigger] s@.len() <= isize::MAX {}
'''
PRELUDE_MODS = ('pub mod internal { pub use super::{CallbackResult, CallbackRetVal, LexerInternal}; pub struct SkipResult; pub trait SkipRetVal {} }\n')

SKIP_FN_RE = r"pub fn skip<'source, Token: Logos<'source>>\(\s*(\w+): &mut Lexer<'source, Token>,?\s*\) -> Skip \{\s*Skip\s*\}"

def skip_fn(repo):
    """the runtime's `logos::skip` callback (src/lib.rs), copied; its (unnamed) parameter gets a name and the contract `lexer unchanged`"""
    src = open(os.path.join(repo, 'src', 'lib.rs')).read()
    m = re.search(SKIP_FN_RE, src)
    if not m: return ''      # definitions that use logos::skip then fail to resolve it: undecided for those units only
    text = m.group(0)
    text = re.sub(r'\(\s*\w+: &mut', '(lexer: &mut', text, count=1)
    text = text.replace('-> Skip {', '-> (r: Skip)\n    ensures *final(lexer) == *old(lexer),\n{')
    return text + '\n'

def build_prelude(repo, work):
    """the V-src unit (default configuration), extracted from /repo now; returns (text without the closing lines, notes)"""
    vs = _load_vsrc()
    unit = vs.UNIT
    out = os.path.join(work, 'vlex_prelude.rs')
    cfg = {'forbid_unsafe': False, 'verif_hooks': False}
    meta = extract.build_unit(unit, repo, cfg, out)
    text = open(out).read()
    notes = []
    for old, new, note in PRELUDE_PATCHES:
        if text.count(old) != 1: raise lexgen.LexGenError('prelude patch does not apply exactly once: %r' % old)
        text = text.replace(old, new); notes.append(note)
    k = text.rindex('} // verus!')
    text = text[:k]
    a = text.index('verus! {')
    text = text[:a] + PRELUDE_HEAD + 'verus! {\n' + PRELUDE_MODS + PRELUDE_AXIOMS + skip_fn(repo) + text[a + len('verus! {'):]
    if skip_fn(repo): notes.append('prelude: `pub fn skip` copied from src/lib.rs; its parameter `_` is named `lexer` (Verus: patterns unsupported) and it carries `ensures *lexer unchanged`')
    text = text.replace('#![allow(', '#![allow(non_camel_case_types, non_upper_case_globals, unreachable_code, unused_assignments, ', 1)
    return text, notes, vs, meta

def _one(args):
    (name, cg, enum_text, cli, work, prelude, lex_req, lex_ens, bytes_view, canary) = args
    sources = [open(os.path.join(DEFS_DIR, CORPUS[name][0])).read(), open(os.path.join(DEFS_DIR, '..', 'corpus.rs')).read()]
    tag = '%s_%s' % (name, cg) + ('_cn_' + re.sub(r'\W+', '_', canary) if canary else '')
    res = dict(defn=name, codegen=cg, tag=tag, canary=canary, failures=[], undecided=[], verified=0, errors=0)
    t0 = time.time()
    try:
        raw = lexgen.run_cli(cli, enum_text, work, '%s_%s' % (name, cg))
        u = lexgen.transform(name, raw, lex_req, lex_ens, bytes_view=bytes_view, canary=canary, sources=sources)
        lines, lm = u.render()
    except lexgen.LexGenError as e:
        res.update(status='undecided', reason='lexgen: %s' % e); return res
    except Exception as e:
        res.update(status='undecided', reason='lexgen crashed: %r' % e); return res
    mod_open = 'pub mod vlex_%s { use super::*;' % name
    pre_lines = prelude.count('\n') + 1       # prelude ends without newline -> mod_open is on its own line
    text = prelude + '\n' + mod_open + '\n' + '\n'.join(lines) + '\n}\n} // verus!\nfn main() {}\n'
    path = os.path.join(work, 'vlex_%s.rs' % tag)
    with open(path, 'w') as f: f.write(text)
    off = pre_lines + 1
    cmd = ['verus', os.path.basename(path), '--output-json', '--time', '--multiple-errors', '30', '--error-format=json',
           '--verify-only-module', 'vlex_%s' % name, '--rlimit', str(RLIMIT)]
    res['cmd'] = ' '.join(cmd); res['file'] = path
    import signal
    class _R: pass
    pp = subprocess.Popen(cmd, cwd=work, stdout=subprocess.PIPE, stderr=subprocess.PIPE, text=True, start_new_session=True)
    try:
        so, se = pp.communicate(timeout=TIMEOUT_S)
        p = _R(); p.stdout = so; p.stderr = se; p.returncode = pp.returncode
    except subprocess.TimeoutExpired:
        try: os.killpg(pp.pid, signal.SIGKILL)
        except OSError: pass
        try: pp.communicate(timeout=10)
        except Exception: pass
        res.update(status='undecided', reason='verus did not finish within %d s' % TIMEOUT_S, wall_s=TIMEOUT_S,
                   rewrites=u.rewrites, inserted=u.inserted, fns=u.fns, n_states=len(u.state_fns)); return res
    res['wall_s'] = round(time.time() - t0, 2)
    res.update(assumed=u.assumed, rewrites=u.rewrites, inserted=u.inserted, fns=u.fns, root=u.root, eoi_targets=sorted(u.eoi),
               source_ty=getattr(u, 'source_ty', '?'), n_states=len(u.state_fns))
    try:
        j = json.loads(p.stdout)
    except Exception:
        res.update(status='undecided', reason='verus produced no JSON (exit %d): %s' % (p.returncode, (p.stderr or p.stdout)[-1500:])); return res
    vr = j.get('verification-results', {})
    res['verified'] = vr.get('verified', 0); res['errors'] = vr.get('errors', 0)
    tm = j.get('times-ms', {})
    res['smt_ms'] = tm.get('smt', {}).get('total'); res['total_ms'] = tm.get('total')
    for line in p.stderr.splitlines():
        line = line.strip()
        if not line.startswith('{'):
            if 'panicked at' in line or 'internal error' in line: res['undecided'].append(line[:300])
            continue
        try: d = json.loads(line)
        except Exception: continue
        if d.get('$message_type') != 'diagnostic' or d.get('level') != 'error': continue
        msg = d['message']
        if msg.startswith('aborting due to'): continue
        spans = d.get('spans', [])
        info = dict(message=msg, rendered=d.get('rendered', '')[:2500], fn=None, clause=None, lines=[], code=[])
        prim = [s for s in spans if s.get('is_primary')] or spans
        for s in prim + [s for s in spans if s not in prim]:
            ln = s.get('line_start')
            if not ln: continue
            k = ln - off - 1
            if k < 0 or k >= len(lm):
                continue
            e = lm[k]
            info['lines'].append(ln)
            if e.get('clause') and not info['clause']: info['clause'] = e['clause']
            if e.get('fn') and not e.get('clause') and not info['fn']: info['fn'] = e['fn']
            if not e.get('clause'): info['code'].append(lines[k][:200])
        if not info['fn']:
            for s in spans:
                ln = s.get('line_start')
                k = (ln or 0) - off - 1
                if 0 <= k < len(lm) and lm[k].get('fn'): info['fn'] = lm[k]['fn']; break
        if any(k in msg for k in V.SEMANTIC) and (info['fn'] or info['clause']):
            res['failures'].append(info)
        else:
            res['undecided'].append('%s @ %s' % (msg[:300], info['code'][:1] or info['lines']))
    if vr.get('encountered-vir-error'): res['undecided'].append('verus reported a VIR (front-end) error')
    if res['undecided'] and not res['failures']:
        res.update(status='undecided', reason='; '.join(res['undecided'])[:1500])
    elif res['failures']:
        res['status'] = 'fail'
    elif vr.get('success') and res['errors'] == 0 and res['verified'] > 0:
        res['status'] = 'ok'
    else:
        res.update(status='undecided', reason='verus gave neither success nor a semantic diagnostic: exit %d %s' % (p.returncode, p.stderr[-800:]))
    res['cheats'] = [c for c in V.scan_cheats(path) if int(c.split(':')[0]) > pre_lines]
    if canary:
        for ext in ('',):
            try: os.remove(path)
            except OSError: pass
    return res

def prepare(repo, work, codegens):
    os.makedirs(work, exist_ok=True)
    clis = {}
    with ProcessPoolExecutor(max_workers=2) as ex:
        futs = {cg: ex.submit(lexgen.build_cli, repo, work, CODEGENS[cg]) for cg in codegens}
        for cg, f in futs.items(): clis[cg] = f.result()
    return clis

def run(defs, codegens, repo, work, canaries=(), jobs=14, only=None, canary_defs=None, canaries_full_for=()):
    """-> dict(results=[...], prelude_notes, error=None|str).  canaries: fn kinds ('lex_body','root','all')"""
    out = dict(results=[], canary_results=[], prelude_notes=[], error=None)
    # generated units live in a directory of their own per repository path (concurrent runs against scratch copies must not
    # overwrite each other's files); the cargo target directories stay in `work` (lexgen.build_cli keys them by path too)
    import hashlib
    build_work = work
    work = os.path.join(work, 'vlex-' + hashlib.sha1(os.path.realpath(repo).encode()).hexdigest()[:8])
    os.makedirs(work, exist_ok=True)
    try:
        clis = prepare(repo, build_work, codegens)
        prelude, notes, vs, pmeta = build_prelude(repo, work)
    except (lexgen.LexGenError, extract.ExtractError) as e:
        out['error'] = str(e); return out
    out['prelude_notes'] = notes
    out['prelude_rewrites'] = pmeta['rewrites']; out['prelude_dropped'] = pmeta['dropped']
    jobs_l = []
    for name in defs:
        fname, bv = CORPUS[name]
        try:
            enum_text = lexgen.enum_item(open(os.path.join(DEFS_DIR, fname)).read(), name)
        except lexgen.LexGenError as e:
            out['results'].append(dict(defn=name, codegen='-', status='undecided', reason=str(e), failures=[], tag=name)); continue
        for cg in codegens:
            if only is not None and (name, cg) not in only: continue
            jobs_l.append((name, cg, enum_text, clis[cg], work, prelude, vs.LEX_REQ, vs.LEX_ENS, bv, None))
    with ProcessPoolExecutor(max_workers=jobs) as ex:
        res = list(ex.map(_one, jobs_l))
    out['results'] += res
    # vacuity canaries: `ensures false` on one function at a time must FAIL
    cj = []
    for r, j in zip(res, jobs_l):
        if r.get('status') != 'ok': continue
        if canary_defs is not None and r['defn'] not in canary_defs: continue
        keys = []
        for key, fm in r['fns'].items():
            kind = fm.get('kind')
            if 'all' in canaries or r['defn'] in canaries_full_for or kind in canaries or (kind == 'state' and fm.get('root') and 'root' in canaries):
                keys.append(key)
        for key in keys:
            cj.append(j[:9] + (key,))
    if cj:
        with ProcessPoolExecutor(max_workers=jobs) as ex:
            for r in ex.map(_one, cj):
                failed = any(f.get('fn') == r['canary'] or (f.get('clause') or '').startswith(r['canary'] + '.canary') for f in r.get('failures', []))
                out['canary_results'].append(dict(tag=r['tag'], key=r['canary'], failed_as_required=failed, status=r.get('status'), reason=r.get('reason')))
    return out

if __name__ == '__main__':
    import argparse
    ap = argparse.ArgumentParser()
    ap.add_argument('defs', nargs='*')
    ap.add_argument('--cg', default='tailcall,state_machine')
    ap.add_argument('--repo', default=os.environ.get('VERIF_REPO', '/repo'))
    ap.add_argument('--canaries', default='')
    a = ap.parse_args()
    defs = a.defs or sorted(CORPUS)
    t0 = time.time()
    o = run(defs, a.cg.split(','), a.repo, os.path.join(ROOT, '.work'), canaries=tuple(x for x in a.canaries.split(',') if x))
    if o['error']: print('ERROR', o['error'])
    for r in o['results']:
        print('%-6s %-14s %-9s verified=%-3s errors=%-2s states=%-3s wall=%-6s %s' % (
            r['defn'], r['codegen'], r.get('status'), r.get('verified'), r.get('errors'), r.get('n_states'), r.get('wall_s'), (r.get('reason') or '')[:300]))
        for f in r.get('failures', [])[:6]:
            print('      FAIL %s | %s | %s | %s' % (f['fn'], f['clause'], f['message'][:60], f['code'][:1]))
    for c in o['canary_results']:
        print('canary %-40s %-30s failed_as_required=%s %s' % (c['tag'], c['key'], c['failed_as_required'], c.get('reason') or ''))
    print('wall %.1fs' % (time.time() - t0))
