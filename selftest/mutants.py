MUTANTS = [
 dict(id='read-str-lt', unit='v_src', file='src/source.rs', cfgs=[{'forbid_unsafe': False}],
      old="""            .is_some_and(|end| end <= self.len())
        {
            // # Safety""", new="""            .is_some_and(|end| end < self.len())
        {
            // # Safety""", expect_fn='str::read'),
 dict(id='read-u8-wrapping', unit='v_src', file='src/source.rs', cfgs=[{'forbid_unsafe': True}],
      old="Chunk::from_slice(self.slice(offset..offset.checked_add(Chunk::SIZE)?)?)",
      new="Chunk::from_slice(self.slice(offset..offset.checked_add(Chunk::SIZE + 1)?)?)", expect_fn='[u8]::read'),
 dict(id='find-boundary-identity', unit='v_src', file='src/source.rs',
      old="        while !self.is_char_boundary(index) {", new="        while false && !self.is_char_boundary(index) {", expect_fn='str::find_boundary'),
 dict(id='is-boundary-u8-lt', unit='v_src', file='src/source.rs',
      old="        index <= self.len()\n", new="        index < self.len()\n", expect_fn='[u8]::is_boundary'),
 dict(id='morph-drops-prefix', unit='v_src', file='src/lexer.rs',
      old="            is_prefix: self.is_prefix,", new="            is_prefix: false,", expect_fn='Lexer::morph'),
 dict(id='clone-resets-start', unit='v_src', file='src/lexer.rs',
      old="            extras: self.extras.clone(),\n            ..*self", new="            extras: self.extras.clone(),\n            token_start: self.token_end,\n            ..*self", expect_fn='Lexer(Clone)::clone'),
 dict(id='trivia-noop', unit='v_src', file='src/lexer.rs',
      old="    fn trivia(&mut self) {\n        self.token_start = self.token_end;", new="    fn trivia(&mut self) {\n        let _ = self.token_end;", expect_fn='Lexer(LexerInternal)::trivia'),
 dict(id='end-to-boundary-raw', unit='v_src', file='src/lexer.rs',
      old="        self.token_end = self.source.find_boundary(offset);", new="        self.token_end = offset;", expect_fn='Lexer(LexerInternal)::end_to_boundary'),
 dict(id='next-keeps-start', unit='v_src', file='src/lexer.rs',
      old="    fn next(&mut self) -> Option<Result<Token, Token::Error>> {\n        self.token_start = self.token_end;\n", new="    fn next(&mut self) -> Option<Result<Token, Token::Error>> {\n", expect_fn='Lexer(Iterator)::next'),
 dict(id='remainder-from-start', unit='v_src', file='src/lexer.rs', cfgs=[{'forbid_unsafe': False}],
      old="                .slice_unchecked(self.token_end..self.source.len())", new="                .slice_unchecked(self.token_start..self.source.len())", expect_fn='Lexer::remainder'),
 dict(id='span-swapped', unit='v_src', file='src/lexer.rs',
      old="        self.token_start..self.token_end\n", new="        self.token_end..self.token_start\n", expect_fn='Lexer::span'),
 dict(id='spanned-wrong-span', unit='v_src', file='src/lexer.rs',
      old="self.lexer.next().map(|token| (token, self.lexer.span()))", new="self.lexer.next().map(|token| (token, 0..self.lexer.span().end))", expect_fn='SpannedIter(Iterator)::next'),
 dict(id='bump-unfixed', unit='v_src', file='src/lexer.rs',
      old="""        match self.token_end.checked_add(n) {
            Some(token_end) if self.source.is_boundary(token_end) => self.token_end = token_end,
            _ => panic!("Invalid Lexer bump"),
        }""", new="""        self.token_end += n;

        assert!(
            self.source.is_boundary(self.token_end),
            "Invalid Lexer bump",
        )""", expect_fn='Lexer::bump'),
 dict(id='bump-wrapping', unit='v_src', file='src/lexer.rs',
      old="match self.token_end.checked_add(n) {", new="match Some(self.token_end.wrapping_add(n)) {", expect_fn='Lexer::bump'),
 dict(id='bump-store-first', unit='v_src', file='src/lexer.rs',
      old="            Some(token_end) if self.source.is_boundary(token_end) => self.token_end = token_end,\n            _ => panic!",
      new="            Some(token_end) if { self.token_end = token_end; self.source.is_boundary(token_end) } => {}\n            _ => panic!", expect_fn='Lexer::bump'),
 dict(id='partial-flag-lost', unit='v_src', file='src/lexer.rs',
      old="            source,\n            is_prefix: true,", new="            source,\n            is_prefix: false,", expect_fn='Lexer::partial_with_extras'),
 # behaviour-preserving edits must stay quiet
 dict(id='benign-rename-local', unit='v_src', file='src/lexer.rs', benign=True,
      old="            Some(token_end) if self.source.is_boundary(token_end) => self.token_end = token_end,", new="            Some(new_end) if self.source.is_boundary(new_end) => self.token_end = new_end,"),
 dict(id='benign-reorder-fields', unit='v_src', file='src/lexer.rs', benign=True,
      old="            source: self.source,\n            is_prefix: self.is_prefix,", new="            is_prefix: self.is_prefix,\n            source: self.source,"),
]
