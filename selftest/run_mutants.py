#!/usr/bin/env python3
"""Developer self-test (not a registered check): apply small textual mutants to a scratch copy of the
repository sources and confirm that the Verus units fail a named obligation in the expected function.
Usage: run_mutants.py [unit-name] ; scratch copy lives under /tmp and is removed afterwards."""
import sys, os, shutil, json, tempfile
HERE = os.path.dirname(os.path.abspath(__file__))
sys.path.insert(0, os.path.join(HERE, '..', 'lib'))
import verus_engine as V
from mutants import MUTANTS

def main():
    only = sys.argv[1] if len(sys.argv) > 1 else None
    tmp = tempfile.mkdtemp(prefix='vx_selftest_')
    work = os.path.join(tmp, 'work'); os.makedirs(work)
    ok = True
    try:
        for m in MUTANTS:
            if only and m['unit'] != only and m['id'] != only: continue
            repo = os.path.join(tmp, 'repo')
            if os.path.exists(repo): shutil.rmtree(repo)
            os.makedirs(repo)
            for d in ('src', 'logos-codegen/src'):
                shutil.copytree(os.path.join('/repo', d), os.path.join(repo, d))
            p = os.path.join(repo, m['file'])
            s = open(p).read()
            if s.count(m['old']) != 1:
                print('MUTANT %-28s  SKIP (pattern occurs %d times)' % (m['id'], s.count(m['old']))); ok = False; continue
            open(p, 'w').write(s.replace(m['old'], m['new']))
            unit = V.load_unit(os.path.join(HERE, '..', 'vx', 'contracts', m['unit'] + '.py'))
            hit = []; status = []
            for cfg in m.get('cfgs', [{'forbid_unsafe': False}, {'forbid_unsafe': True}] if m['unit'] in ('v_src', 'v_skip') else [{}]):
                cfg = dict(cfg); cfg.setdefault('verif_hooks', False)
                r = V.run_one(unit, repo, work, cfg)
                status.append(r['status'] + ('' if r['status'] != 'undecided' else ':' + str(r.get('reason'))[:200]))
                hit += ['%s/%s' % (f['fn'], f['clause'] or f['message']) for f in r['failures']]
            exp = m.get('expect_fn')
            caught = any(h.startswith(exp) for h in hit) if exp else bool(hit)
            if m.get('benign'):
                good = not hit and all(s == 'ok' for s in status)
                print('BENIGN %-28s  %s  %s' % (m['id'], 'quiet' if good else 'FALSE ALARM', hit[:3]))
            else:
                good = caught
                print('MUTANT %-28s  %s  %s %s' % (m['id'], 'caught' if good else 'MISSED', sorted(set(hit))[:4], status if not good else ''))
            ok = ok and good
    finally:
        shutil.rmtree(tmp, ignore_errors=True)
    sys.exit(0 if ok else 1)
main()
