#!/usr/bin/env python3
"""Developer self-test (not a registered check): apply textual mutants to a scratch git worktree of /repo and run the real
`./check <property>` against it (VERIF_REPO), recording which check catches which change.
usage: run_check_mutants.py [mutant-id ...]     (default: all of CHECK_MUTANTS)"""
import sys, os, subprocess, json, time
HERE = os.path.dirname(os.path.abspath(__file__))
ROOT = os.path.abspath(os.path.join(HERE, '..'))
sys.path.insert(0, HERE)
from check_mutants import CHECK_MUTANTS
WT = '/tmp/verif_mut_wt'

def sh(*a, **k): return subprocess.run(a, capture_output=True, text=True, **k)

def main():
    want = set(sys.argv[1:])
    sh('git', '-C', '/repo', 'worktree', 'remove', '--force', WT)
    r = sh('git', '-C', '/repo', 'worktree', 'add', '--detach', WT, 'HEAD')
    if r.returncode != 0: print(r.stderr); return 2
    results = []
    try:
        for m in CHECK_MUTANTS:
            if want and m['id'] not in want: continue
            sh('git', '-C', WT, 'checkout', '--', '.')
            p = os.path.join(WT, m['file'])
            s = open(p).read()
            if s.count(m['old']) != 1:
                print('MUTANT %-32s SKIP (pattern occurs %d times)' % (m['id'], s.count(m['old']))); continue
            open(p, 'w').write(s.replace(m['old'], m['new']))
            for prop in m['props']:
                t0 = time.time()
                env = dict(os.environ, VERIF_REPO=WT)
                r = sh(os.path.join(ROOT, 'check'), prop, '--tier', m.get('tier', 'quick'), env=env, cwd=ROOT)
                viol = [l for l in r.stdout.splitlines() if l.startswith('VIOLATION')]
                und = [l for l in r.stdout.splitlines() if l.startswith('UNDECIDED')]
                verdict = {0: 'MISSED', 1: 'caught', 2: 'undecided'}.get(r.returncode, 'rc=%d' % r.returncode)
                if m.get('benign'): verdict = {0: 'quiet', 1: 'FALSE ALARM', 2: 'undecided'}.get(r.returncode, verdict)
                print('MUTANT %-32s %-4s %-10s %5.0fs  %s' % (m['id'], prop, verdict, time.time() - t0, (viol or und or [''])[0][:160]), flush=True)
                results.append(dict(id=m['id'], prop=prop, verdict=verdict, violations=viol[:5], undecided=und[:3]))
    finally:
        sh('git', '-C', '/repo', 'worktree', 'remove', '--force', WT)
    json.dump(results, open(os.path.join(ROOT, '.work', 'check_mutants_results.json'), 'w'), indent=1)
main()
