#!/usr/bin/env python3
"""developer self-test: textual mutants of the code generator; V-lex must fail a named obligation for the ones that break LEX /
the C02 / C20 clauses and stay quiet for behaviour-preserving ones.  usage: run_vlex_mutants.py [name ...]"""
import sys, os, subprocess, shutil, hashlib, json
ROOT = os.path.abspath(os.path.join(os.path.dirname(os.path.abspath(__file__)), '..'))
sys.path.insert(0, os.path.join(ROOT, 'lib'))
import vlex_engine as E
WT = '/tmp/vlex_mut_wt'
G = 'logos-codegen/src/generator/'
MUTANTS = [
  # (name, file, old, new, expect 'fail'|'quiet', definitions)
  ('error-min-length-dropped', G + 'mod.rs', 'lex.end_to_boundary(offset.max(lex.offset() + 1));', 'lex.end_to_boundary(offset);', 'fail', ['B1', 'E3']),
  ('late-accept-at-offset', G + 'mod.rs', 'lex.end(offset - 1);', 'lex.end(offset);', 'fail', ['Q2']),
  ('partial-guard-inverted', G + 'fork.rs', 'if lex.is_prefix() {\n                    lex.end(lex.offset());', 'if !lex.is_prefix() {\n                    lex.end(lex.offset());', 'fail', ['B1', 'S1']),
  ('partial-none-without-rewind', G + 'fork.rs', 'lex.end(lex.offset());\n                    return _Option::None', 'return _Option::None', 'fail', ['B1']),
  ('root-none-check-dropped', G + 'fork.rs', 'eoi.append_all(quote! { if lex.offset() == offset { return _Option::None } });', '', 'fail', ['B1', 'B2']),
  ('eoi-edge-without-bump', G + 'fork.rs', 'eoi.append_all(quote! {\n                offset += 1;\n                #transition', 'eoi.append_all(quote! {\n                #transition', 'fail', ['Q2', 'Q4']),
  ('table-miss-without-undo', G + 'fork.rs', '                offset -= 1;\n', '', 'fail', ['B1', 'E3']),
  ('skip-restart-without-trivia', G + 'leaf.rs', '$lex.trivia();\n', '', 'fail', ['S1', 'S3']),
  ('fast-loop-tail-advances-twice', G + 'fast_loop.rs', 'if $test(byte) { break \'fast_loop; }\n                        $offset += 1;', 'if $test(byte) { break \'fast_loop; }\n                        $offset += 2;', 'fail', ['B5', 'S1']),
  ('fast-loop-restarts-from-entry', G + 'fast_loop.rs', "while let _Option::Some(byte) = $lex.read::<::core::primitive::u8>($offset) {", "while let _Option::Some(byte) = $lex.read::<::core::primitive::u8>($offset - 1) {", 'fail', ['B5']),
  # behaviour-preserving
  ('lut-threshold', G + 'fork.rs', 'let condition = if cmp_count > 2 {', 'let condition = if cmp_count > 3 {', 'quiet', ['B1', 'B4', 'B6']),
  ('unroll-4', G + 'mod.rs', 'let fast_loop_macro = fast_loop_macro(8);', 'let fast_loop_macro = fast_loop_macro(4);', 'quiet', ['B5', 'B7', 'S1']),
  ('table-threshold', G + 'fork.rs', 'if state_data.normal.len() > 2 {', 'if state_data.normal.len() > 1 {', 'quiet', ['B1', 'E3', 'Q2']),
]
def sh(*a, **k): return subprocess.run(a, capture_output=True, text=True, **k)
sel = sys.argv[1:]
ok_all = True
for (name, f, old, new, expect, defs) in MUTANTS:
    if sel and name not in sel: continue
    sh('git', '-C', '/repo', 'worktree', 'remove', '--force', WT)
    sh('git', '-C', '/repo', 'worktree', 'add', '--detach', WT, 'HEAD')
    p = os.path.join(WT, f); s = open(p).read()
    if s.count(old) < 1:
        print('%-34s ANCHOR LOST' % name); ok_all = False; continue
    open(p, 'w').write(s.replace(old, new))
    o = E.run(defs, ['tailcall', 'state_machine'], WT, os.path.join(ROOT, '.work'))
    fails = []; und = []
    for r in o['results']:
        for fl in r.get('failures', []):
            fails.append('%s/%s %s' % (r['defn'], r['codegen'], fl.get('clause') or fl['message'][:50]))
        if r.get('status') == 'undecided': und.append('%s/%s %s' % (r['defn'], r['codegen'], (r.get('reason') or '')[:80]))
    verdict = 'fail' if fails else ('undecided' if und or o['error'] else 'quiet')
    good = (verdict == expect)
    ok_all &= good
    print('%-34s expected %-6s got %-9s %s  %s' % (name, expect, verdict, 'OK' if good else '** MISMATCH **', (fails or und or [o['error'] or ''])[0][:110]), flush=True)
    rp = hashlib.sha1(os.path.realpath(WT).encode()).hexdigest()[:8]
    for x in os.listdir(os.path.join(ROOT, '.work')):
        if x.startswith('vlex-target-' + rp) or x == 'vlex-' + rp: shutil.rmtree(os.path.join(ROOT, '.work', x), ignore_errors=True)
sh('git', '-C', '/repo', 'worktree', 'remove', '--force', WT)
sys.exit(0 if ok_all else 1)
