//! Demonstration of the C18 defect fixed by the `fix:` commit in /repo (see ../../known_findings.txt):
//! a group argument such as `ignore(case)` or `skip(...)` could only be the LAST item of an attribute; followed by
//! another argument the derive reported "Expected a named argument at this position".
//! Before the fix this crate does not compile (cargo exits non-zero); after it, it prints "C18 demo: ok".
use logos::Logos;

#[derive(Logos, Debug, PartialEq, Clone, Copy)]
#[logos(skip("_", ignore(case), priority = 7), utf8 = false)]
enum Permuted {
    #[regex("[a-c]+", ignore(case), priority = 3)]
    Abc,
    #[token("ab", ignore(case), priority = 9)]
    Ab,
}

#[derive(Logos, Debug, PartialEq, Clone, Copy)]
#[logos(utf8 = false, skip("_", priority = 7, ignore(case)))]
enum Canonical {
    #[regex("[a-c]+", priority = 3, ignore(case))]
    Abc,
    #[token("ab", priority = 9, ignore(case))]
    Ab,
}

fn main() {
    let input: &[u8] = b"Ab_cBA_AB";
    let a: Vec<_> = Permuted::lexer(input).spanned().map(|(t, s)| (t.map(|t| t as u8), s)).collect();
    let b: Vec<_> = Canonical::lexer(input).spanned().map(|(t, s)| (t.map(|t| t as u8), s)).collect();
    if a == b { println!("C18 demo: ok"); } else { println!("VIOLATED: {:?} vs {:?}", a, b); std::process::exit(1); }
}
