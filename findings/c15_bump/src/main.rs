//! Demonstration of the C15 defect fixed by the `fix:` commit in /repo (see ../../known_findings.txt).
//! Exit status 0 = property holds on this tree, 1 = violated.
use logos::Logos;
use std::panic::{catch_unwind, AssertUnwindSafe};

#[derive(Logos, Debug, PartialEq, Clone)]
enum Tok {
    #[regex("[a-z]+")]
    Word,
    #[token(" ")]
    Space,
}

fn main() {
    let mut bad = 0;
    // (a) overflowing bump must panic in every profile
    let mut lex = Tok::lexer("abc def");
    assert_eq!(lex.next(), Some(Ok(Tok::Word)));
    let r = catch_unwind(AssertUnwindSafe(|| lex.bump(usize::MAX - 1)));
    if r.is_ok() {
        println!("VIOLATED (a): bump(usize::MAX-1) returned normally, span = {:?}", lex.span());
        bad += 1;
    }
    let sp = lex.span();
    if !(sp.start <= sp.end && sp.end <= 7) {
        println!("VIOLATED (a'): span after overflowing bump = {:?} (source len 7)", sp);
        bad += 1;
    }
    // (b) out-of-range bump must panic and leave the lexer usable
    let mut lex = Tok::lexer("abc def");
    assert_eq!(lex.next(), Some(Ok(Tok::Word)));
    let r = catch_unwind(AssertUnwindSafe(|| lex.bump(100)));
    if r.is_ok() {
        println!("VIOLATED (b): bump(100) on a 7-byte source returned normally");
        bad += 1;
    }
    let sp = lex.span();
    if !(sp.start <= sp.end && sp.end <= 7) {
        println!("VIOLATED (b'): after the panic span() = {:?} lies outside the 7-byte source; slice()/remainder() would be out of bounds", sp);
        bad += 1;
    }
    if bad == 0 { println!("C15 demo: ok"); }
    std::process::exit(if bad == 0 { 0 } else { 1 });
}
