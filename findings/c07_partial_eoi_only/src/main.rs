// C07: a partial lexer must not commit an item that a continuation of the prefix changes.
use logos::{Lexer, Logos};
#[derive(Logos, Debug, Clone, Copy, PartialEq)]
#[logos(utf8 = false)]
enum T {
    #[regex(r"\.$")] FinalDot,
    #[regex("[a-z]+")] Word,
    #[token(" ")] Space,
}
fn main() {
    let s: &[u8] = b"a. b";
    let full: Vec<_> = Lexer::<T>::new(s).spanned().collect();
    let mut bad = 0;
    for k in 0..=s.len() {
        let mut p = Lexer::<T>::new_partial(&s[..k]);
        let mut i = 0;
        while let Some(item) = p.next() {
            let got = (item, p.span());
            if i >= full.len() || got != full[i] {
                println!("k={k}: partial lexer over {:?} committed {:?}, one-shot item #{i} of {:?} is {:?}", String::from_utf8_lossy(&s[..k]), got, String::from_utf8_lossy(s), full.get(i));
                bad += 1; break;
            }
            i += 1;
        }
    }
    println!("one-shot: {:?}", full);
    std::process::exit(if bad == 0 { 0 } else { 1 });
}
