//! Demonstration of the C10 defect fixed by the `fix:` commit in /repo (see ../../known_findings.txt):
//! `ignore(case)` on a `#[logos(skip(...))]` pattern was accepted by the derive but not applied.
//! Exit status 0 = property holds on this tree, 1 = violated.
use logos::Logos;

#[derive(Logos, Debug, PartialEq, Clone, Copy)]
#[logos(skip("z", ignore(case)))]
enum Tok {
    #[token("ab", ignore(case))]
    Ab,
}

fn main() {
    let got: Vec<_> = Tok::lexer("zabZAB").spanned().collect();
    let want = vec![(Ok(Tok::Ab), 1..3), (Ok(Tok::Ab), 4..6)];
    if got == want {
        println!("C10 demo: ok");
    } else {
        println!("VIOLATED: lexing \"zabZAB\" with skip(\"z\", ignore(case)) gave {:?}, expected {:?}", got, want);
        std::process::exit(1);
    }
}
