//! Native replay: `replay <harness> <hex,hex,...>` runs the harness body against the real code with the byte vectors
//! printed by Kani's concrete playback (one comma separated hex string per kani::any() primitive).
//! exit 0 = all checks held, 1 = a check failed (violation reproduced), 3 = input does not satisfy the harness assumptions.
#[cfg(kani)]
fn main() {}

#[cfg(not(kani))]
fn main() {
    let a: Vec<String> = std::env::args().collect();
    if a.len() < 2 { eprintln!("usage: replay <harness> [hexbytes,...]"); std::process::exit(2); }
    let vals: Vec<Vec<u8>> = if a.len() > 2 && !a[2].is_empty() {
        a[2].split(',').map(|h| (0..h.len() / 2).map(|i| u8::from_str_radix(&h[2 * i..2 * i + 2], 16).unwrap()).collect()).collect()
    } else { vec![] };
    let name = a[1].clone();
    if !k_lex::proofs::HARNESSES.contains(&name.as_str()) { eprintln!("unknown harness {}", name); std::process::exit(2); }
    let r = k_lex::sym::run_with_input(vals, || { k_lex::proofs::run_native(&name); });
    match r {
        Some(true) => { println!("REPLAY-OK {}", name); std::process::exit(0) }
        Some(false) => { println!("REPLAY-VIOLATION {}", name); std::process::exit(1) }
        None => { println!("REPLAY-ASSUME-VIOLATED {}", name); std::process::exit(3) }
    }
}
