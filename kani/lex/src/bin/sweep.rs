//! Developer tool (not a registered check): run harness bodies natively over all inputs drawn from a small alphabet, to
//! validate corpus spec tables against the unchanged tree before a definition is admitted to the corpus.
//! usage: sweep <harness-prefix> <alphabet bytes as hex> 
#[cfg(kani)]
fn main() {}

#[cfg(not(kani))]
fn index_sym(h: &str) -> Option<usize> {
    let path = std::env::var("K_LEX_INDEX").unwrap_or_else(|_| "src/harness_index.json".to_string());
    let text = std::fs::read_to_string(path).ok()?;
    let key = format!("\"{}\":", h);
    let at = text.find(&key)?;
    let rest = &text[at..];
    let end = rest.find('}')?;
    let obj = &rest[..end];
    let s = obj.find("\"sym\":")?;
    let num: String = obj[s + 6..].chars().skip_while(|c| c.is_whitespace()).take_while(|c| c.is_ascii_digit()).collect();
    num.parse().ok()
}

#[cfg(not(kani))]
fn main() {
    let a: Vec<String> = std::env::args().collect();
    let prefix = &a[1];
    let alpha: Vec<u8> = (0..a[2].len() / 2).map(|i| u8::from_str_radix(&a[2][2 * i..2 * i + 2], 16).unwrap()).collect();
    let mut total = 0u64; let mut bad = 0u64; let mut skipped = 0u64;
    for h in k_lex::proofs::HARNESSES.iter().filter(|h| h.starts_with(prefix.as_str())) {
        // number of symbolic bytes: from the generated index ("sym"), else from the name ..._n<N>_...
        let n: usize = index_sym(h).unwrap_or_else(|| h.split('_').find(|p| p.starts_with('n') && p[1..].chars().all(|c| c.is_ascii_digit()) && p.len() > 1).map(|p| p[1..].parse().unwrap()).unwrap_or(0));
        let mut idx = vec![0usize; n];
        loop {
            let vals: Vec<Vec<u8>> = idx.iter().map(|&i| vec![alpha[i]]).collect();
            let shown: Vec<u8> = idx.iter().map(|&i| alpha[i]).collect();
            match k_lex::sym::run_with_input(vals, || { k_lex::proofs::run_native(h); }) {
                Some(true) => {}
                Some(false) => { bad += 1; if bad <= 20 { println!("FAIL {} input={:?} ({:?})", h, shown, String::from_utf8_lossy(&shown)); } }
                None => { skipped += 1; }
            }
            total += 1;
            let mut k = 0;
            while k < n { idx[k] += 1; if idx[k] < alpha.len() { break; } idx[k] = 0; k += 1; }
            if k == n { break; }
        }
    }
    println!("sweep: {} runs, {} failed, {} outside assumptions", total, bad, skipped);
    std::process::exit(if bad == 0 { 0 } else { 1 });
}
