//! Executable specification of what a lexer built from a set of patterns must do on one match attempt
//! (properties C01, C02, C03).  It knows nothing about graphs, DFAs or generated code: a pattern is a constant
//! combinator tree translated by hand from the regex crate's documented meaning, and the answer is computed by
//! position-set data flow over the (symbolic) input bytes.
//!
//! Positions are 0..=N with N <= 30; a set of positions is a bit mask.

pub type Mask = u32;

#[derive(Clone, Copy, Debug)]
pub enum P {
    /// exactly these bytes
    Lit(&'static [u8]),
    /// one byte in the union of the inclusive ranges
    Class(&'static [(u8, u8)]),
    /// concatenation
    Cat(&'static [P]),
    /// alternation
    Alt(&'static [P]),
    /// zero or more
    Star(&'static P),
    /// one or more
    Plus(&'static P),
    /// zero or one
    Opt(&'static P),
    /// between m and n repetitions (n == 255: unbounded)
    Rep(&'static P, u8, u8),
    /// zero-width look-ahead: end of input, or the next byte is not an ASCII word byte [0-9A-Za-z_]
    /// (this is `(?-u:\\b)` right after a word byte)
    NotWordAhead,
    /// zero-width: end of input (`$`, `\\z`)
    AtEnd,
}

fn is_word(b: u8) -> bool { (b >= b'0' && b <= b'9') || (b >= b'a' && b <= b'z') || (b >= b'A' && b <= b'Z') || b == b'_' }

fn look(p: &P, inp: &[u8], starts: Mask) -> Mask {
    let n = inp.len();
    let mut out = 0;
    let mut s = 0;
    while s <= n {
        if bit(starts, s) {
            let ok = match *p { P::AtEnd => s == n, _ => s == n || !is_word(inp[s]) };
            if ok { out |= 1 << s; }
        }
        s += 1;
    }
    out
}

#[inline]
fn bit(m: Mask, i: usize) -> bool { (m >> i) & 1 == 1 }

fn in_class(b: u8, rs: &[(u8, u8)]) -> bool {
    let mut i = 0;
    let mut r = false;
    while i < rs.len() {
        if rs[i].0 <= b && b <= rs[i].1 { r = true; }
        i += 1;
    }
    r
}

fn lit_at(inp: &[u8], s: usize, w: &[u8], k: usize) -> bool {
    // inp[s..s+k] == w[..k]
    if s + k > inp.len() { return false; }
    let mut i = 0;
    let mut ok = true;
    while i < k {
        if inp[s + i] != w[i] { ok = false; }
        i += 1;
    }
    ok
}

/// all q such that inp[s..q] is in L(p) for some s in `starts`
pub fn ends(p: &P, inp: &[u8], starts: Mask) -> Mask {
    let n = inp.len();
    match *p {
        P::Lit(w) => {
            let mut out = 0;
            let mut s = 0;
            while s <= n {
                if bit(starts, s) && lit_at(inp, s, w, w.len()) { out |= 1 << (s + w.len()); }
                s += 1;
            }
            out
        }
        P::Class(rs) => {
            let mut out = 0;
            let mut s = 0;
            while s < n {
                if bit(starts, s) && in_class(inp[s], rs) { out |= 1 << (s + 1); }
                s += 1;
            }
            out
        }
        P::Cat(ps) => {
            let mut cur = starts;
            let mut i = 0;
            while i < ps.len() { cur = ends(&ps[i], inp, cur); i += 1; }
            cur
        }
        P::Alt(ps) => {
            let mut out = 0;
            let mut i = 0;
            while i < ps.len() { out |= ends(&ps[i], inp, starts); i += 1; }
            out
        }
        P::Star(q) => {
            let mut acc = starts;
            let mut i = 0;
            while i <= n { acc |= ends(q, inp, acc); i += 1; }
            acc
        }
        P::Plus(q) => {
            let first = ends(q, inp, starts);
            let mut acc = first;
            let mut i = 0;
            while i <= n { acc |= ends(q, inp, acc); i += 1; }
            acc
        }
        P::Opt(q) => starts | ends(q, inp, starts),
        P::NotWordAhead | P::AtEnd => look(p, inp, starts),
        P::Rep(q, lo, hi) => {
            let mut cur = starts;
            let mut i = 0u8;
            while i < lo { cur = ends(q, inp, cur); i += 1; }
            let mut acc = cur;
            if hi == 255 {
                let mut j = 0;
                while j <= n { acc |= ends(q, inp, acc); j += 1; }
            } else {
                while i < hi { cur = ends(q, inp, cur); acc |= cur; i += 1; }
            }
            acc
        }
    }
}

/// all q such that inp[s..q] is a prefix of some word of L(p) for some s in `starts`
/// (every sub-pattern of the corpus denotes a non-empty language)
pub fn alive(p: &P, inp: &[u8], starts: Mask) -> Mask {
    let n = inp.len();
    match *p {
        P::Lit(w) => {
            let mut out = 0;
            let mut s = 0;
            while s <= n {
                if bit(starts, s) {
                    let mut k = 0;
                    while k <= w.len() {
                        if lit_at(inp, s, w, k) { out |= 1 << (s + k); }
                        k += 1;
                    }
                }
                s += 1;
            }
            out
        }
        P::Class(rs) => starts | ends(&P::Class(rs), inp, starts),
        P::Cat(ps) => {
            let mut cur = starts;
            let mut out = 0;
            let mut i = 0;
            while i < ps.len() {
                out |= alive(&ps[i], inp, cur);
                cur = ends(&ps[i], inp, cur);
                i += 1;
            }
            out
        }
        P::Alt(ps) => {
            let mut out = 0;
            let mut i = 0;
            while i < ps.len() { out |= alive(&ps[i], inp, starts); i += 1; }
            out
        }
        P::Star(q) => { let s = ends(p, inp, starts); s | alive(q, inp, s) }
        P::Plus(q) => { let s = starts | ends(p, inp, starts); alive(q, inp, s) }
        P::Opt(q) => starts | alive(q, inp, starts),
        // a zero-width assertion consumes nothing: what has been read so far stays a viable prefix
        P::NotWordAhead | P::AtEnd => starts,
        P::Rep(q, lo, hi) => {
            let mut cur = starts;
            let mut out = 0;
            let mut i = 0u8;
            while i < lo { out |= alive(q, inp, cur); cur = ends(q, inp, cur); i += 1; }
            if hi == 255 {
                let s = ends(&P::Star(q), inp, cur);
                out |= s | alive(q, inp, s);
            } else {
                out |= cur;
                while i < hi { out |= alive(q, inp, cur); cur = ends(q, inp, cur); i += 1; }
            }
            out
        }
    }
}

/// What the matched pattern does.
#[derive(Clone, Copy, Debug, PartialEq, Eq)]
pub enum Act {
    /// emit the variant with this id
    Tok(u8),
    /// skip pattern: restart at the end of the match
    Skip,
    /// a callback decides; the definition's `decide` function gives the expected outcome
    Cb(u8),
}

pub struct Pat { pub p: P, pub prio: u16, pub act: Act }

pub struct Def {
    pub name: &'static str,
    pub pats: &'static [Pat],
    /// str mode: error ends are rounded up to the next char boundary
    pub utf8: bool,
    /// outcome of callback `k` on the match inp[s..e]
    pub decide: fn(k: u8, inp: &[u8], s: usize, e: usize) -> Decision,
    /// the definition's callbacks record their invocations in the extras (CbLog)
    pub log_callbacks: bool,
    /// id of the *default* error for an error item with this span (0 unless an error callback is configured)
    pub default_err: fn(start: usize, end: usize) -> u8,
}
pub fn plain_default(_s: usize, _e: usize) -> u8 { 0 }

#[derive(Clone, Copy, Debug, PartialEq, Eq)]
pub enum Decision { Emit(u8), DefaultError, Error(u8), Skip, EmitBumped(u8, usize), SkipBumped(usize) }

pub fn no_callbacks(_k: u8, _inp: &[u8], _s: usize, _e: usize) -> Decision { Decision::DefaultError }

#[derive(Clone, Copy, Debug, PartialEq, Eq)]
pub enum Exp {
    /// end of input: `next()` returns None
    End,
    /// Ok(variant id) with this span
    Tok { vid: u8, start: usize, end: usize },
    /// Err with this span; eid 0 = the error type's Default
    Err { eid: u8, start: usize, end: usize },
    /// two patterns of equal top priority match the same longest prefix: the derive should have rejected the definition
    Ambiguous,
}

fn highest(m: Mask, n: usize) -> usize {
    let mut i = 0; let mut h = 0;
    while i <= n { if bit(m, i) { h = i; } i += 1; }
    h
}

pub fn is_cont(b: u8) -> bool { b & 0xC0 == 0x80 }

/// least char boundary >= q (q <= len)
pub fn round_up(inp: &[u8], q: usize) -> usize {
    let mut r = q;
    let mut i = 0;
    while i < 4 { if r < inp.len() && is_cont(inp[r]) { r += 1; } i += 1; }
    r
}

/// outcome of ONE raw match attempt at position p (no skip chaining): (Some((pattern index, end)) | None, error end)
pub const MAX_PATS: usize = 16;

pub fn attempt(def: &Def, inp: &[u8], p: usize) -> (Option<(usize, usize)>, usize, bool) {
    let n = inp.len();
    let start: Mask = 1 << p;
    let mut e = [0 as Mask; MAX_PATS];
    let mut all: Mask = 0;
    let mut i = 0;
    let mut viable: Mask = 0;
    while i < def.pats.len() {
        e[i] = ends(&def.pats[i].p, inp, start) & !start;
        all |= e[i];
        viable |= alive(&def.pats[i].p, inp, start);
        i += 1;
    }
    if all != 0 {
        let longest = highest(all, n);
        // winner: unique highest priority among the patterns matching exactly inp[p..longest]
        let mut best: usize = MAX_PATS;
        let mut best_prio: u16 = 0;
        let mut tie = false;
        let mut j = 0;
        while j < def.pats.len() {
            if bit(e[j], longest) {
                if best == MAX_PATS || def.pats[j].prio > best_prio { best = j; best_prio = def.pats[j].prio; tie = false; }
                else if def.pats[j].prio == best_prio { tie = true; }
            }
            j += 1;
        }
        return (Some((best, longest)), 0, tie);
    }
    // error: ends immediately before the first position q >= p such that inp[p..q+1] is not a viable prefix
    // (end of input counts as a byte), never less than one byte
    let mut q = p;
    let mut found = false;
    let mut k = p;
    while k <= n {
        if !found && !(k + 1 <= n && bit(viable, k + 1)) { q = k; found = true; }
        k += 1;
    }
    let mut end = if q > p + 1 { q } else { p + 1 };
    if end > n { end = n; }
    if def.utf8 { end = round_up(inp, end); }
    (None, end, false)
}

/// the item `next()` must produce when the previous item ended at p (skips chained)
pub fn expected_item(def: &Def, inp: &[u8], p: usize, max_skips: usize) -> Exp { expected_item_cb(def, inp, p, max_skips).0 }

/// (item, number of pattern-callback invocations the attempt chain makes, span the last callback observed)
pub fn expected_item_cb(def: &Def, inp: &[u8], p: usize, max_skips: usize) -> (Exp, u8, usize, usize) {
    let n = inp.len();
    let mut pos = p;
    let mut guard = 0;
    let mut cbs: u8 = 0;
    let mut cs = 0usize;
    let mut ce = 0usize;
    // `max_skips` bounds the number of skipped matches in front of the item (0 for skip-free definitions; the number of
    // skip bytes of the skeleton otherwise), so that the model checker does not unroll attempts that cannot happen
    while guard <= max_skips {
        if pos >= n { return (Exp::End, cbs, cs, ce); }
        let (m, err_end, tie) = attempt(def, inp, pos);
        if tie { return (Exp::Ambiguous, cbs, cs, ce); }
        match m {
            None => return (Exp::Err { eid: 0, start: pos, end: err_end }, cbs, cs, ce),
            Some((j, e)) => match def.pats[j].act {
                Act::Tok(v) => return (Exp::Tok { vid: v, start: pos, end: e }, cbs, cs, ce),
                Act::Skip => { pos = e; }
                Act::Cb(k) => { cbs += 1; cs = pos; ce = e; match (def.decide)(k, inp, pos, e) {
                    Decision::Emit(v) => return (Exp::Tok { vid: v, start: pos, end: e }, cbs, cs, ce),
                    Decision::EmitBumped(v, b) => return (Exp::Tok { vid: v, start: pos, end: e + b }, cbs, cs, ce),
                    Decision::DefaultError => return (Exp::Err { eid: 0, start: pos, end: e }, cbs, cs, ce),
                    Decision::Error(x) => return (Exp::Err { eid: x, start: pos, end: e }, cbs, cs, ce),
                    Decision::Skip => { pos = e; }
                    Decision::SkipBumped(b) => { pos = e + b; }
                } },
            },
        }
        guard += 1;
    }
    (Exp::End, cbs, cs, ce)
}

// ---------------------------------------------------------------------------------------------------------
// UTF-8 building blocks (regex-syntax's Utf8Sequences, written out)

pub const CONT: P = P::Class(&[(0x80, 0xBF)]);
pub const ASCII: P = P::Class(&[(0x00, 0x7F)]);
/// any Unicode scalar value, as UTF-8
pub const ANY_CHAR: P = P::Alt(&[
    P::Class(&[(0x00, 0x7F)]),
    P::Cat(&[P::Class(&[(0xC2, 0xDF)]), CONT]),
    P::Cat(&[P::Class(&[(0xE0, 0xE0)]), P::Class(&[(0xA0, 0xBF)]), CONT]),
    P::Cat(&[P::Class(&[(0xE1, 0xEC)]), CONT, CONT]),
    P::Cat(&[P::Class(&[(0xED, 0xED)]), P::Class(&[(0x80, 0x9F)]), CONT]),
    P::Cat(&[P::Class(&[(0xEE, 0xEF)]), CONT, CONT]),
    P::Cat(&[P::Class(&[(0xF0, 0xF0)]), P::Class(&[(0x90, 0xBF)]), CONT, CONT]),
    P::Cat(&[P::Class(&[(0xF1, 0xF3)]), CONT, CONT, CONT]),
    P::Cat(&[P::Class(&[(0xF4, 0xF4)]), P::Class(&[(0x80, 0x8F)]), CONT, CONT]),
]);
/// the multi-byte part of ANY_CHAR
pub const NON_ASCII_CHAR: P = P::Alt(&[
    P::Cat(&[P::Class(&[(0xC2, 0xDF)]), CONT]),
    P::Cat(&[P::Class(&[(0xE0, 0xE0)]), P::Class(&[(0xA0, 0xBF)]), CONT]),
    P::Cat(&[P::Class(&[(0xE1, 0xEC)]), CONT, CONT]),
    P::Cat(&[P::Class(&[(0xED, 0xED)]), P::Class(&[(0x80, 0x9F)]), CONT]),
    P::Cat(&[P::Class(&[(0xEE, 0xEF)]), CONT, CONT]),
    P::Cat(&[P::Class(&[(0xF0, 0xF0)]), P::Class(&[(0x90, 0xBF)]), CONT, CONT]),
    P::Cat(&[P::Class(&[(0xF1, 0xF3)]), CONT, CONT, CONT]),
    P::Cat(&[P::Class(&[(0xF4, 0xF4)]), P::Class(&[(0x80, 0x8F)]), CONT, CONT]),
]);

/// well-formed UTF-8 (same language as ANY_CHAR*), as a plain function for `assume`
pub fn valid_utf8(inp: &[u8]) -> bool {
    let n = inp.len();
    bit(ends(&P::Star(&ANY_CHAR), inp, 1), n)
}
