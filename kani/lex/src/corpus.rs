//! Glue between corpus definitions (real `#[derive(Logos)]` enums, compiled from /repo's working tree) and the harnesses.
use crate::spec::*;
use crate::sym::*;
use crate::{check, cover};

/// What one call of `next()` produced, in comparable form.
#[derive(Clone, Copy, Debug, PartialEq, Eq)]
pub struct Outcome {
    /// 0 = None, 1 = Some(Ok), 2 = Some(Err)
    pub res: u8,
    /// variant id (Ok) or error id (Err; 0 = Default)
    pub id: u8,
    pub start: usize,
    pub end: usize,
    /// slice() == input[span] and remainder() == input[span.end..] (only evaluated when the span is inside the input)
    pub views_ok: bool,
    /// number of callback invocations recorded in extras during this call, and whether each saw span()/slice() == the match
    pub cb_calls: u8,
    pub cb_views_ok: bool,
    /// span() seen by the last callback
    pub cb_start: usize,
    pub cb_end: usize,
}

pub trait Corpus {
    fn def() -> &'static Def;
    /// bump a fresh lexer to `start`, call next() once
    fn run(input: &[u8], start: usize, partial: bool) -> Outcome;
}

/// Extras used by callback definitions to record what the callbacks observed.
#[derive(Default, Clone, Debug, PartialEq)]
pub struct CbLog { pub calls: u8, pub bad_views: bool, pub last_start: usize, pub last_end: usize }
impl CbLog { pub fn summary(&self) -> (u8, bool, usize, usize) { (self.calls, !self.bad_views, self.last_start, self.last_end) } }

#[macro_export]
macro_rules! corpus_impl {
    // byte mode
    ($ty:ty, bytes, $def:expr, |$t:ident| $vid:expr, |$e:ident| $eid:expr, |$x:ident| $log:expr) => {
        impl $crate::corpus::Corpus for $ty {
            fn def() -> &'static $crate::spec::Def { &$def }
            fn run(input: &[u8], start: usize, partial: bool) -> $crate::corpus::Outcome {
                let mut lex = if partial { logos::Lexer::<$ty>::new_partial(input) } else { <$ty as logos::Logos>::lexer(input) };
                lex.bump(start);
                let r = lex.next();
                let sp = lex.span();
                let inside = sp.start <= sp.end && sp.end <= input.len();
                let views_ok = inside && lex.slice() == &input[sp.start..sp.end] && lex.remainder() == &input[sp.end..];
                let (res, id) = match r { None => (0u8, 0u8), Some(Ok($t)) => (1, $vid), Some(Err($e)) => (2, $eid) };
                let $x = &lex.extras;
                let (cb_calls, cb_views_ok, cb_start, cb_end): (u8, bool, usize, usize) = $log;
                $crate::corpus::Outcome { res, id, start: sp.start, end: sp.end, views_ok, cb_calls, cb_views_ok, cb_start, cb_end }
            }
        }
    };
    // str mode: the harness guarantees `input` is valid UTF-8 and `start` a char boundary
    ($ty:ty, str, $def:expr, |$t:ident| $vid:expr, |$e:ident| $eid:expr, |$x:ident| $log:expr) => {
        impl $crate::corpus::Corpus for $ty {
            fn def() -> &'static $crate::spec::Def { &$def }
            fn run(input: &[u8], start: usize, partial: bool) -> $crate::corpus::Outcome {
                let text: &str = unsafe { core::str::from_utf8_unchecked(input) };
                let mut lex = if partial { logos::Lexer::<$ty>::new_partial(text) } else { <$ty as logos::Logos>::lexer(text) };
                lex.bump(start);
                let r = lex.next();
                let sp = lex.span();
                let inside = sp.start <= sp.end && sp.end <= input.len();
                let views_ok = inside && lex.slice().as_bytes() == &input[sp.start..sp.end] && lex.remainder().as_bytes() == &input[sp.end..];
                let (res, id) = match r { None => (0u8, 0u8), Some(Ok($t)) => (1, $vid), Some(Err($e)) => (2, $eid) };
                let $x = &lex.extras;
                let (cb_calls, cb_views_ok, cb_start, cb_end): (u8, bool, usize, usize) = $log;
                $crate::corpus::Outcome { res, id, start: sp.start, end: sp.end, views_ok, cb_calls, cb_views_ok, cb_start, cb_end }
            }
        }
    };
}

pub fn sym_input<const N: usize>() -> [u8; N] { any() }

/// C20 ghost monitor (only with the `verif_hooks` feature of logos): reset before an attempt chain ...
pub fn monitor_reset() {
    #[cfg(feature = "verif_hooks")]
    logos::verif_hooks::reset();
}
/// ... and checked after it.
pub fn monitor_check() {
    #[cfg(feature = "verif_hooks")]
    {
        use core::sync::atomic::Ordering::Relaxed;
        use logos::verif_hooks as h;
        check!(!h::WENT_BACKWARDS.load(Relaxed), "C20: within a match attempt the read offsets never decrease");
        check!(!h::BELOW_FLOOR.load(Relaxed), "C20: no read before the start of the current attempt");
        check!(!h::TOO_MANY_READS.load(Relaxed), "C20: at most 4 * bytes examined + 4 reads per attempt");
        check!(!h::BAD_END.load(Relaxed), "interface: end()/end_to_boundary() called with token_start <= offset <= len (and a char boundary for end())");
        check!(h::ATTEMPTS.load(Relaxed) >= 1, "C20: the monitor saw the attempt start");
        cover!(h::TOTAL_READS.load(Relaxed) >= 2, "C20 monitor: at least two reads traced");
    }
}

fn is_boundary(inp: &[u8], i: usize) -> bool { i >= inp.len() || !is_cont(inp[i]) }

/// C01/C02/C03/C04/C05 (+C13 via `decide`): one attempt from `start` against the specification.
pub fn attempt_vs_spec<T: Corpus, const N: usize>(input: &[u8; N], start: usize) { attempt_vs_spec_sk::<T, N>(input, start, 0, false) }
/// same, with the vacuity cover points (each cover point is an extra solver query, so only designated harnesses carry them)
pub fn attempt_vs_spec_cov<T: Corpus, const N: usize>(input: &[u8; N], start: usize) { attempt_vs_spec_sk::<T, N>(input, start, 0, true) }

pub fn attempt_vs_spec_sk<T: Corpus, const N: usize>(input: &[u8; N], start: usize, max_skips: usize, covers: bool) {
    let def = T::def();
    if def.utf8 {
        assume(valid_utf8(input));
        assume(is_boundary(input, start));
    }
    let (exp, exp_cbs, exp_cs, exp_ce) = expected_item_cb(def, input, start, max_skips);
    check!(exp != Exp::Ambiguous, "spec: two equal-priority patterns match the same longest prefix (derive accepted an ambiguous definition, or the corpus table is wrong)");
    monitor_reset();
    let got = T::run(input, start, false);
    monitor_check();
    match exp {
        Exp::End => {
            check!(got.res == 0, "C03: next() must return None exactly at the end of input");
            check!(got.start == N && got.end == N, "C03: after None the span is empty at the end of input");
            if covers { cover!(true, "end of input reached"); }
        }
        Exp::Tok { vid, start: s, end: e } => {
            check!(got.res == 1, "C01: a token is expected here");
            check!(got.id == vid, "C01: variant of the highest-priority pattern matching the longest prefix");
            check!(got.start == s, "C01/C03: the item starts where the previous item or skip ended");
            check!(got.end == e, "C01: the item covers the longest matching prefix");
            if covers { cover!(true, "token produced"); }
            if covers { cover!(s > start, "token after a skipped region"); }
        }
        Exp::Err { eid, start: s, end: e } => {
            check!(got.res == 2, "C02: an error item is expected here");
            let want = if eid == 0 { (def.default_err)(s, e) } else { eid };
            check!(got.id == want, "C02/C13: error value (Default, or what the error callback / pattern callback supplied)");
            check!(got.start == s, "C02: the error span starts at the failed attempt's start");
            check!(got.end == e, "C02: error span ends before the first non-viable byte (>= 1 byte, rounded up to a char boundary)");
            if covers { cover!(true, "error produced"); }
            if covers { cover!(e > s + 1, "error longer than one byte"); }
        }
        Exp::Ambiguous => {}
    }
    check!(got.views_ok, "C05/C14: slice() and remainder() are the source at span()");
    if def.log_callbacks {
        check!(got.cb_calls == exp_cbs, "C13: a pattern callback runs exactly once for each match of its pattern that wins selection");
        check!(got.cb_views_ok, "C13: inside a callback slice() is the source at span()");
    }
    if def.log_callbacks && exp_cbs > 0 {
        check!(got.cb_start == exp_cs && got.cb_end == exp_ce, "C13: the callback observes span() equal to the match");
    }
    if got.res != 0 {
        check!(got.start < got.end && got.end <= N, "C03: items are non-empty and inside the source");
    }
    if def.utf8 {
        check!(is_boundary(input, got.start) && is_boundary(input, got.end), "C04: span ends on char boundaries");
    }
}

/// Skip definitions: `skel[i] == Some(b)` fixes byte i to the concrete byte b (a byte that can take part in a skipped match),
/// `None` makes it symbolic but constrained to bytes that cannot take part in a skip.  The number of concrete bytes bounds
/// the number of skipped matches in front of the item.
pub fn attempt_skeleton<T: Corpus, const N: usize>(skel: [Option<u8>; N], start: usize, skip_byte: fn(u8) -> bool, covers: bool) {
    let mut input = [0u8; N];
    let mut i = 0;
    let mut fixed = 0;
    while i < N {
        match skel[i] {
            Some(b) => { input[i] = b; fixed += 1; }
            None => { let b: u8 = any(); assume(!skip_byte(b)); input[i] = b; }
        }
        i += 1;
    }
    attempt_vs_spec_sk::<T, N>(&input, start, fixed, covers);
}

/// Heavy definitions (several unrolled loops, skips): a concrete context with symbolic bytes at the positions marked `None`.
/// All 256 values of each marked byte are explored in the lexer state reached by the concrete prefix.
pub fn attempt_context<T: Corpus, const N: usize>(ctx: [Option<u8>; N], start: usize, max_skips: usize, covers: bool) {
    let mut input = [0u8; N];
    let mut i = 0;
    while i < N {
        match ctx[i] { Some(b) => { input[i] = b; } None => { input[i] = any(); } }
        i += 1;
    }
    attempt_vs_spec_sk::<T, N>(&input, start, max_skips, covers);
}

/// profiling aids
pub fn lex_only<T: Corpus, const N: usize>(input: &[u8; N], start: usize) {
    let got = T::run(input, start, false);
    check!(got.start <= got.end && got.end <= N, "span inside the source");
}
pub fn spec_only<T: Corpus, const N: usize>(input: &[u8; N], start: usize) {
    let exp = expected_item(T::def(), input, start, 0);
    check!(exp != Exp::Ambiguous, "spec not ambiguous");
}

/// relational: two definitions must agree on every attempt (C10 ignore-case expansions, C11 subpattern inlining,
/// C12 str/bytes, C18 argument order)
pub fn twins_agree<A: Corpus, B: Corpus, const N: usize>(input: &[u8; N], start: usize, need_utf8: bool) {
    if need_utf8 {
        assume(valid_utf8(input));
        assume(is_boundary(input, start));
    }
    let a = A::run(input, start, false);
    let b = B::run(input, start, false);
    check!(a.res == b.res, "twins: same kind of item");
    check!(a.id == b.id, "twins: same variant / error");
    check!(a.start == b.start && a.end == b.end, "twins: same span");
    check!(a.views_ok && b.views_ok, "twins: slice()/remainder() consistent");
    cover!(a.res == 1, "twins: token");
    cover!(a.res == 2, "twins: error");
}

fn fill<const N: usize>(ctx: [Option<u8>; N]) -> [u8; N] {
    let mut input = [0u8; N];
    let mut i = 0;
    while i < N {
        match ctx[i] { Some(b) => { input[i] = b; } None => { input[i] = any(); } }
        i += 1;
    }
    input
}
pub fn twins_agree_ctx<A: Corpus, B: Corpus, const N: usize>(ctx: [Option<u8>; N], start: usize, need_utf8: bool) {
    let input = fill(ctx);
    twins_agree::<A, B, N>(&input, start, need_utf8);
}

/// C12: the str-mode definition S and its utf8 = false twin B on the same valid UTF-8 text: same Ok tokens with the same
/// spans; where S reports an error [p, r) (rounded up to a char boundary), B reports an error [p, q) with q <= r, and
/// every B attempt started inside (q..r) is again an error ending at or before r - so the same bytes are covered by errors.
pub fn modes_agree<S: Corpus, B: Corpus, const N: usize>(ctx: [Option<u8>; N], start: usize) {
    let input = fill(ctx);
    assume(valid_utf8(&input));
    assume(is_boundary(&input, start));
    let s = S::run(&input, start, false);
    let b = B::run(&input, start, false);
    check!(s.res == b.res, "C12: same kind of item in str mode and byte mode");
    check!(s.start == b.start, "C12: same item start");
    if s.res == 1 {
        check!(s.id == b.id && s.end == b.end, "C12: same Ok token with the same span");
        cover!(true, "modes: token");
    }
    if s.res == 2 {
        check!(b.start < b.end && b.end <= s.end, "C12: the byte-mode error lies inside the str-mode error");
        let mut k = 1;
        while k <= 3 {
            let pos = start + k;
            if pos >= b.end && pos < s.end {
                let again = B::run(&input, pos, false);
                check!(again.res == 2 && again.start == pos && again.end <= s.end, "C12: bytes up to the str-mode error end are covered by byte-mode errors");
                cover!(true, "modes: error split in byte mode");
            }
            k += 1;
        }
        cover!(true, "modes: error");
    }
    check!(s.views_ok && b.views_ok, "C12: slice()/remainder() consistent");
}

pub fn partial_ctx<T: Corpus, const N: usize, const K: usize>(ctx: [Option<u8>; N], start: usize) {
    let input = fill(ctx);
    partial_vs_full::<T, N, K>(&input, start);
}

/// C14 (bounded complement of the Verus proof, on real derived lexers B1 / B2 over the same source).  Split into three
/// short histories because every additional next() over a symbolic byte multiplies CBMC's work.
/// (a) next, morph to another token type: position preserved, the morphed lexer continues like a fresh lexer there
pub fn history_morph<const N: usize>(ctx: [Option<u8>; N]) {
    use crate::defs::basic::{B1, B2};
    use logos::{Lexer, Logos};
    let input = fill(ctx);
    let src: &[u8] = &input[..];
    let mut l1 = B1::lexer(src);
    let _r1 = l1.next();
    let sp1 = l1.span();
    check!(sp1.start <= sp1.end && sp1.end <= N, "C14: span inside the source after next");
    check!(l1.slice() == &src[sp1.start..sp1.end] && l1.remainder() == &src[sp1.end..], "C14: slice/remainder agree with span after next");
    let mut l2: Lexer<B2> = l1.morph();
    check!(l2.span() == sp1 && l2.slice() == &src[sp1.start..sp1.end] && l2.remainder() == &src[sp1.end..], "C14: morph preserves position");
    let r2 = l2.next();
    let want2 = <B2 as Corpus>::run(src, sp1.end, false);
    let sp2 = l2.span();
    check!(sp2.start == want2.start && sp2.end == want2.end, "C14: the morphed lexer continues at the same position");
    check!((match r2 { None => 0, Some(Ok(_)) => 1, Some(Err(_)) => 2 }) == want2.res, "C14: the morphed lexer yields what a fresh lexer there yields");
    let l3: Lexer<B1> = l2.morph();
    check!(l3.span() == sp2, "C14: morphing back preserves position");
    cover!(r2.is_some(), "history: an item after a morph");
}
/// (b) next, clone: the clone continues with the items the original produces, and does not affect it
pub fn history_clone<const N: usize>(ctx: [Option<u8>; N]) {
    use crate::defs::basic::B1;
    use logos::Logos;
    let input = fill(ctx);
    let src: &[u8] = &input[..];
    let mut l1 = B1::lexer(src);
    let _r1 = l1.next();
    let sp1 = l1.span();
    let mut c = l1.clone();
    check!(c.span() == sp1, "C14: a clone has the original's span");
    let rc = c.next();
    check!(l1.span() == sp1, "C14: advancing a clone does not affect the original");
    let ro = l1.next();
    check!(rc == ro && c.span() == l1.span(), "C14: a clone continues with exactly the items the original produces");
    cover!(rc.is_some(), "history: an item from a clone");
}
/// (c) spanned() yields the (item, span) pairs of manual iteration
pub fn history_spanned<const N: usize>(ctx: [Option<u8>; N]) {
    use crate::defs::basic::B1;
    use logos::Logos;
    let input = fill(ctx);
    let src: &[u8] = &input[..];
    let mut l1 = B1::lexer(src);
    let r1 = l1.next();
    let sp1 = l1.span();
    let mut it = B1::lexer(src).spanned();
    match (it.next(), r1) {
        (None, None) => {}
        (Some((a, s)), Some(b)) => { check!(a == b && s == sp1, "C14: spanned() yields the (item, span) pairs of manual iteration"); }
        _ => { check!(false, "C14: spanned() and manual iteration disagree on termination"); }
    }
    check!(it.span() == sp1, "C14: the spanned iterator derefs to a lexer at the same position");
    cover!(r1.is_some(), "history: an item from spanned()");
}

/// C07: a partial lexer over input[..k] either commits the item the one-shot lexer yields, or returns None with an empty span
/// at the attempt's start.
pub fn partial_vs_full<T: Corpus, const N: usize, const K: usize>(input: &[u8; N], start: usize) {
    let def = T::def();
    let mut prefix = [0u8; K];
    let mut i = 0;
    while i < K { prefix[i] = input[i]; i += 1; }
    if def.utf8 {
        assume(valid_utf8(input));
        assume(valid_utf8(&prefix));
        assume(is_boundary(input, start));
    }
    let full = T::run(input, start, false);
    let part = T::run(&prefix, start, true);
    if part.res != 0 {
        check!(part.res == full.res && part.id == full.id, "C07: a committed item equals the one-shot item (result, variant)");
        check!(part.start == full.start && part.end == full.end, "C07: a committed item equals the one-shot item (span)");
        cover!(true, "partial lexer committed an item");
    } else {
        check!(part.start == part.end, "C07: at None the partial lexer reports an empty span");
        check!(part.start >= start && part.start <= K, "C07: the resume position lies between the attempt's start and the end of the prefix");
        check!(part.start <= full.start || full.res == 0, "C07: the resume position does not pass the start of the next one-shot item");
        // lexing S from the reported position reproduces the one-shot item (the candidates are the concrete positions of the prefix)
        let mut p = start;
        while p <= K {
            if part.start == p && p != start {
                let resumed = T::run(input, p, false);
                check!(resumed.res == full.res && resumed.id == full.id && resumed.start == full.start && resumed.end == full.end,
                       "C07: lexing the whole input from the position reported at None reproduces the one-shot item");
            }
            p += 1;
        }
        cover!(true, "partial lexer asked for more input");
    }
    check!(part.views_ok, "C07: slice()/remainder() consistent in partial mode");
}
