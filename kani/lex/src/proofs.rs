//! Harness table (generated list included below).  One harness = one definition, one input length, one concrete start.
use crate::corpus::*;
use crate::defs::*;
use crate::sym::any;

macro_rules! harnesses {
    ($( $name:ident [$unwind:expr] => $body:expr; )*) => {
        $( #[cfg(kani)] #[kani::proof] #[kani::unwind($unwind)] fn $name() { $body } )*
        #[cfg(not(kani))]
        pub fn run_native(name: &str) -> bool {
            match name { $( stringify!($name) => { $body; true } )* _ => false }
        }
        pub const HARNESSES: &[&str] = &[ $( stringify!($name) ),* ];
    };
}

include!("harness_list.rs");
