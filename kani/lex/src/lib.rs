//! K-lex: bounded model checking (Kani/CBMC) of the real derive output for a corpus of definitions against an
//! independent executable specification; see /verif/DESIGN.md sections 2.3 and 3.
#![allow(dead_code)]
pub mod sym;
pub mod spec;
pub mod corpus;
pub mod defs;
pub mod proofs;
