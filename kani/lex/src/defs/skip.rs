//! Definitions with skip patterns.  Under CBMC every symbolic byte that may start a skip forks a restart of the lexer, so
//! these are explored through *skeletons*: concrete skip bytes at chosen positions, symbolic non-skip bytes elsewhere.
use crate::spec::*;
use crate::corpus_impl;
use logos::Logos;

const LOWER: P = P::Class(&[(b'a', b'z')]);
const DIGIT: P = P::Class(&[(b'0', b'9')]);

// ---- S1: whitespace skip (class, self-loop) + words, numbers, '='
#[derive(Logos, Debug, PartialEq, Clone, Copy)]
#[logos(utf8 = false)]
#[logos(skip r"[ \t]+")]
pub enum S1 {
    #[regex("[a-z]+")] Word,
    #[token("=")] Eq,
    #[regex("[0-9]+")] Num,
}
pub static S1_DEF: Def = Def {
    name: "S1", utf8: false, decide: no_callbacks, log_callbacks: false, default_err: plain_default,
    pats: &[
        Pat { p: P::Plus(&P::Class(&[(b' ', b' '), (b'\t', b'\t')])), prio: 2, act: Act::Skip },
        Pat { p: P::Plus(&LOWER), prio: 2, act: Act::Tok(1) },
        Pat { p: P::Lit(b"="), prio: 2, act: Act::Tok(2) },
        Pat { p: P::Plus(&DIGIT), prio: 2, act: Act::Tok(3) },
    ],
};
corpus_impl!(S1, bytes, S1_DEF, |t| match t { S1::Word => 1, S1::Eq => 2, S1::Num => 3 }, |_e| 0, |_x| (0, true, 0, 0));
pub fn s1_skip_byte(b: u8) -> bool { b == b' ' || b == b'\t' }

// ---- S2: skip by literal, skip through the `logos::skip` callback on a variant, two-byte skip literal sharing a prefix with a token
#[derive(Logos, Debug, PartialEq, Clone, Copy)]
#[logos(utf8 = false)]
#[logos(skip "\n")]
pub enum S2 {
    #[token("--", logos::skip)] DashDash,
    #[token("-")] Minus,
    #[regex("[a-z]")] Letter,
    #[token("->")] Arrow,
}
pub static S2_DEF: Def = Def {
    name: "S2", utf8: false, decide: no_callbacks, log_callbacks: false, default_err: plain_default,
    pats: &[
        Pat { p: P::Lit(b"\n"), prio: 2, act: Act::Skip },
        Pat { p: P::Lit(b"--"), prio: 4, act: Act::Skip },
        Pat { p: P::Lit(b"-"), prio: 2, act: Act::Tok(2) },
        Pat { p: LOWER, prio: 2, act: Act::Tok(3) },
        Pat { p: P::Lit(b"->"), prio: 4, act: Act::Tok(4) },
    ],
};
corpus_impl!(S2, bytes, S2_DEF, |t| match t { S2::DashDash => 1, S2::Minus => 2, S2::Letter => 3, S2::Arrow => 4 }, |_e| 0, |_x| (0, true, 0, 0));
pub fn s2_skip_byte(b: u8) -> bool { b == b'\n' || b == b'-' }

// ---- S3: a skip pattern that is a proper prefix of a longer token: when the longer attempt fails the lexer falls back to
// the skip match and must restart at the END OF THE SKIP, not at the position the failed attempt had reached
#[derive(Logos, Debug, PartialEq, Clone, Copy)]
#[logos(utf8 = false)]
#[logos(skip " +")]
pub enum S3 {
    #[regex(" *\r\n")] Newline,
    #[regex("[a-z]+")] Word,
}
pub static S3_DEF: Def = Def {
    name: "S3", utf8: false, decide: no_callbacks, log_callbacks: false, default_err: plain_default,
    pats: &[
        Pat { p: P::Plus(&P::Lit(b" ")), prio: 2, act: Act::Skip },
        Pat { p: P::Cat(&[P::Star(&P::Lit(b" ")), P::Lit(b"\r\n")]), prio: 4, act: Act::Tok(1) },
        Pat { p: P::Plus(&LOWER), prio: 2, act: Act::Tok(2) },
    ],
};
corpus_impl!(S3, bytes, S3_DEF, |t| match t { S3::Newline => 1, S3::Word => 2 }, |_e| 0, |_x| (0, true, 0, 0));
pub fn s3_skip_byte(b: u8) -> bool { b == b' ' }
