//! C10: #[token] literals are matched verbatim whatever they contain; ignore(case) is the regex crate's (?i).
use crate::spec::*;
use crate::corpus_impl;
use logos::Logos;

// ---- L1: literals made of regex metacharacters, byte-string literals with bytes >= 0x80 (byte mode)
#[derive(Logos, Debug, PartialEq, Clone, Copy)]
#[logos(utf8 = false)]
pub enum L1 {
    #[token("a.b*")] DotStar,
    #[token("(")] Paren,
    #[token("[x]")] Bracket,
    #[token(r"\d")] BackslashD,
    #[token("$^")] Anchors,
    #[token(b"\xff\x00")] HighBytes,
    #[token("a|b")] Pipe,
    #[token("+?")] PlusQ,
    #[regex("[0-9]")] Digit,
}
pub static L1_DEF: Def = Def {
    name: "L1", utf8: false, decide: no_callbacks, log_callbacks: false, default_err: plain_default,
    pats: &[
        Pat { p: P::Lit(b"a.b*"), prio: 8, act: Act::Tok(1) },
        Pat { p: P::Lit(b"("), prio: 2, act: Act::Tok(2) },
        Pat { p: P::Lit(b"[x]"), prio: 6, act: Act::Tok(3) },
        Pat { p: P::Lit(b"\\d"), prio: 4, act: Act::Tok(4) },
        Pat { p: P::Lit(b"$^"), prio: 4, act: Act::Tok(5) },
        Pat { p: P::Lit(b"\xff\x00"), prio: 4, act: Act::Tok(6) },
        Pat { p: P::Lit(b"a|b"), prio: 6, act: Act::Tok(7) },
        Pat { p: P::Lit(b"+?"), prio: 4, act: Act::Tok(8) },
        Pat { p: P::Class(&[(b'0', b'9')]), prio: 2, act: Act::Tok(9) },
    ],
};
corpus_impl!(L1, bytes, L1_DEF, |t| match t { L1::DotStar => 1, L1::Paren => 2, L1::Bracket => 3, L1::BackslashD => 4, L1::Anchors => 5, L1::HighBytes => 6, L1::Pipe => 7, L1::PlusQ => 8, L1::Digit => 9 }, |_e| 0, |_x| (0, true, 0, 0));

// ---- L2: str mode, multi-byte text and metacharacters in one literal
#[derive(Logos, Debug, PartialEq, Clone, Copy)]
pub enum L2 {
    #[token("é|€")] EPipeEuro,
    #[token("é")] E,
    #[token(".")] Dot,
    #[token("\\")] Backslash,
}
pub static L2_DEF: Def = Def {
    name: "L2", utf8: true, decide: no_callbacks, log_callbacks: false, default_err: plain_default,
    pats: &[
        Pat { p: P::Lit("é|€".as_bytes()), prio: 12, act: Act::Tok(1) },
        Pat { p: P::Lit("é".as_bytes()), prio: 4, act: Act::Tok(2) },
        Pat { p: P::Lit(b"."), prio: 2, act: Act::Tok(3) },
        Pat { p: P::Lit(b"\\"), prio: 2, act: Act::Tok(4) },
    ],
};
corpus_impl!(L2, str, L2_DEF, |t| match t { L2::EPipeEuro => 1, L2::E => 2, L2::Dot => 3, L2::Backslash => 4 }, |_e| 0, |_x| (0, true, 0, 0));

// ---- I1: ignore(case) on a token, a regex and a skip (str mode: Unicode simple case folding)
//   k ~ K ~ U+212A KELVIN SIGN (E2 84 AA);  ß (C3 9F) ~ U+1E9E (E1 BA 9E);  s ~ S ~ U+017F LONG S (C5 BF)
#[derive(Logos, Debug, PartialEq, Clone, Copy)]
#[logos(skip("z", ignore(case)))]
pub enum I1 {
    #[token("ab", ignore(case))] Ab,
    #[token("kß", ignore(case))] KEszett,
    #[regex("x[a-c]", ignore(case))] XAbc,
    #[token("a.", ignore(case))] ADot,
    #[token("q")] Q,
    // an all-ASCII literal whose case-insensitive language is not all-ASCII
    #[token("ks", ignore(case))] Ks,
}
const K_FOLD: P = P::Alt(&[P::Class(&[(b'k', b'k'), (b'K', b'K')]), P::Lit(&[0xE2, 0x84, 0xAA])]);
const ESZETT_FOLD: P = P::Alt(&[P::Lit(&[0xC3, 0x9F]), P::Lit(&[0xE1, 0xBA, 0x9E])]);
const S_FOLD: P = P::Alt(&[P::Class(&[(b's', b's'), (b'S', b'S')]), P::Lit(&[0xC5, 0xBF])]);
pub static I1_DEF: Def = Def {
    name: "I1", utf8: true, decide: no_callbacks, log_callbacks: false, default_err: plain_default,
    pats: &[
        Pat { p: P::Class(&[(b'z', b'z'), (b'Z', b'Z')]), prio: 2, act: Act::Skip },
        Pat { p: P::Cat(&[P::Class(&[(b'a', b'a'), (b'A', b'A')]), P::Class(&[(b'b', b'b'), (b'B', b'B')])]), prio: 4, act: Act::Tok(1) },
        Pat { p: P::Cat(&[K_FOLD, ESZETT_FOLD]), prio: 6, act: Act::Tok(2) },
        Pat { p: P::Cat(&[P::Class(&[(b'x', b'x'), (b'X', b'X')]), P::Class(&[(b'a', b'c'), (b'A', b'C')])]), prio: 4, act: Act::Tok(3) },
        Pat { p: P::Cat(&[P::Class(&[(b'a', b'a'), (b'A', b'A')]), P::Lit(b".")]), prio: 4, act: Act::Tok(4) },
        Pat { p: P::Lit(b"q"), prio: 2, act: Act::Tok(5) },
        Pat { p: P::Cat(&[K_FOLD, S_FOLD]), prio: 4, act: Act::Tok(6) },
    ],
};
corpus_impl!(I1, str, I1_DEF, |t| match t { I1::Ab => 1, I1::KEszett => 2, I1::XAbc => 3, I1::ADot => 4, I1::Q => 5, I1::Ks => 6 }, |_e| 0, |_x| (0, true, 0, 0));
pub fn i1_skip_byte(b: u8) -> bool { b == b'z' || b == b'Z' }

// ---- I2: ignore(case) on byte-string literals is ASCII-only
#[derive(Logos, Debug, PartialEq, Clone, Copy)]
#[logos(utf8 = false)]
pub enum I2 {
    #[token(b"k\xdf", ignore(case))] KHigh,
    #[token(b"ab", ignore(case))] Ab,
    #[regex(b"[x-z]\xe9", ignore(case))] XyzHigh,
    // a control byte directly followed by hex-digit characters (the literal is escaped into a regex: \x09 must stay two digits)
    #[token(b"\tdE", ignore(case))] TabDe,
    #[token(b"\x00f", ignore(case))] NulF,
}
pub static I2_DEF: Def = Def {
    name: "I2", utf8: false, decide: no_callbacks, log_callbacks: false, default_err: plain_default,
    pats: &[
        Pat { p: P::Cat(&[P::Class(&[(b'k', b'k'), (b'K', b'K')]), P::Lit(b"\xdf")]), prio: 4, act: Act::Tok(1) },
        Pat { p: P::Cat(&[P::Class(&[(b'a', b'a'), (b'A', b'A')]), P::Class(&[(b'b', b'b'), (b'B', b'B')])]), prio: 4, act: Act::Tok(2) },
        Pat { p: P::Cat(&[P::Class(&[(b'x', b'z'), (b'X', b'Z')]), P::Lit(b"\xe9")]), prio: 4, act: Act::Tok(3) },
        Pat { p: P::Cat(&[P::Lit(b"\t"), P::Class(&[(b'd', b'd'), (b'D', b'D')]), P::Class(&[(b'e', b'e'), (b'E', b'E')])]), prio: 6, act: Act::Tok(4) },
        Pat { p: P::Cat(&[P::Lit(b"\x00"), P::Class(&[(b'f', b'f'), (b'F', b'F')])]), prio: 4, act: Act::Tok(5) },
    ],
};
corpus_impl!(I2, bytes, I2_DEF, |t| match t { I2::KHigh => 1, I2::Ab => 2, I2::XyzHigh => 3, I2::TabDe => 4, I2::NulF => 5 }, |_e| 0, |_x| (0, true, 0, 0));
