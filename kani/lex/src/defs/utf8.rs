//! (default priority of a #[token] is 2 x its *byte* length; of a literal inside a #[regex] 2 x its *char* count)
//! str-mode definitions: 1-, 2-, 3- and 4-byte characters, negated classes, `.`, error rounding (C04, C02, C12).
use crate::spec::*;
use crate::corpus_impl;
use logos::Logos;

// "é" = C3 A9, "€" = E2 82 AC, "😀" = F0 9F 98 80, "ß" = C3 9F, "₭" = E2 82 AD (shares two bytes with "€")
const NOT_A: P = P::Alt(&[P::Class(&[(0x00, b'a' - 1), (b'a' + 1, 0x7F)]), NON_ASCII_CHAR]);
const ANY_BUT_LF: P = P::Alt(&[P::Class(&[(0x00, 0x09), (0x0B, 0x7F)]), NON_ASCII_CHAR]);

// ---- U1: literals of every encoded length, a class over non-ASCII letters, a negated class
#[derive(Logos, Debug, PartialEq, Clone, Copy)]
pub enum U1 {
    #[token("é")] EAcute,
    #[token("€")] Euro,
    #[token("😀")] Grin,
    #[regex("[a-zß-ö]+")] Letters,       // ß..ö = U+00DF..U+00F6  (C3 9F .. C3 B6)
    #[regex("€[^a]")] EuroNotA,
    #[token("€€x")] EuroEuroX,
}
pub static U1_DEF: Def = Def {
    name: "U1", utf8: true, decide: no_callbacks, log_callbacks: false, default_err: plain_default,
    pats: &[
        Pat { p: P::Lit("é".as_bytes()), prio: 4, act: Act::Tok(1) },
        Pat { p: P::Lit("€".as_bytes()), prio: 6, act: Act::Tok(2) },
        Pat { p: P::Lit("😀".as_bytes()), prio: 8, act: Act::Tok(3) },
        Pat { p: P::Plus(&P::Alt(&[P::Class(&[(b'a', b'z')]), P::Cat(&[P::Class(&[(0xC3, 0xC3)]), P::Class(&[(0x9F, 0xB6)])])])), prio: 2, act: Act::Tok(4) },
        Pat { p: P::Cat(&[P::Lit("€".as_bytes()), NOT_A]), prio: 4, act: Act::Tok(5) },
        Pat { p: P::Lit("€€x".as_bytes()), prio: 14, act: Act::Tok(6) },
    ],
};
corpus_impl!(U1, str, U1_DEF, |t| match t { U1::EAcute => 1, U1::Euro => 2, U1::Grin => 3, U1::Letters => 4, U1::EuroNotA => 5, U1::EuroEuroX => 6 }, |_e| 0, |_x| (0, true, 0, 0));

// ---- U2: `.` (any char but \n) after a marker, quoted string with a negated class
#[derive(Logos, Debug, PartialEq, Clone, Copy)]
pub enum U2 {
    #[regex("x.")] XDot,
    #[regex(r#""[^"]*""#)] Str,
    #[token("x")] X,
}
const NOT_QUOTE: P = P::Alt(&[P::Class(&[(0x00, 0x21), (0x23, 0x7F)]), NON_ASCII_CHAR]);
pub static U2_DEF: Def = Def {
    name: "U2", utf8: true, decide: no_callbacks, log_callbacks: false, default_err: plain_default,
    pats: &[
        Pat { p: P::Cat(&[P::Lit(b"x"), ANY_BUT_LF]), prio: 4, act: Act::Tok(1) },
        Pat { p: P::Cat(&[P::Lit(b"\""), P::Star(&NOT_QUOTE), P::Lit(b"\"")]), prio: 4, act: Act::Tok(2) },
        Pat { p: P::Lit(b"x"), prio: 2, act: Act::Tok(3) },
    ],
};
corpus_impl!(U2, str, U2_DEF, |t| match t { U2::XDot => 1, U2::Str => 2, U2::X => 3 }, |_e| 0, |_x| (0, true, 0, 0));

// ---- E2: errors that die in the middle of a character: the end must be rounded up to the next boundary
#[derive(Logos, Debug, PartialEq, Clone, Copy)]
pub enum E2 {
    #[token("€")] Euro,
    #[token("a€b")] AEuroB,
    #[token("😀!")] GrinBang,
}
pub static E2_DEF: Def = Def {
    name: "E2", utf8: true, decide: no_callbacks, log_callbacks: false, default_err: plain_default,
    pats: &[
        Pat { p: P::Lit("€".as_bytes()), prio: 6, act: Act::Tok(1) },
        Pat { p: P::Lit("a€b".as_bytes()), prio: 10, act: Act::Tok(2) },
        Pat { p: P::Lit("😀!".as_bytes()), prio: 10, act: Act::Tok(3) },
    ],
};
corpus_impl!(E2, str, E2_DEF, |t| match t { E2::Euro => 1, E2::AEuroB => 2, E2::GrinBang => 3 }, |_e| 0, |_x| (0, true, 0, 0));
