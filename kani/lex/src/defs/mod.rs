pub mod basic;
