pub mod basic;
pub mod skip;
pub mod utf8;
