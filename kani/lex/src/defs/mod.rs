pub mod basic;
pub mod skip;
pub mod utf8;
pub mod callbacks;
pub mod literal;
pub mod twins;
