//! Relational corpus entries: pairs of definitions that must lex identically.
//!   C11: subpattern references vs. the same patterns with the references inlined by hand as (?u:...) / (?-u:...) groups
//!   C12: the same definition in str mode and with utf8 = false
//!   C18: the same definition with attribute arguments in a different order
use crate::spec::*;
use crate::corpus_impl;
use logos::{Lexer, Logos};

// ------------------------------------------------------------------------------------------------ C11
#[derive(Logos, Debug, PartialEq, Clone, Copy)]
#[logos(subpattern dig = r"[0-9]")]
#[logos(subpattern num = r"(?&dig)+")]
#[logos(subpattern alt = r"a|bc")]
#[logos(subpattern ci = r"(?i)q")]
#[logos(subpattern euro = r"€|e")]
pub enum P1 {
    #[regex("(?&num)x")] NumX,
    #[regex("(?&alt)d")] AltD,
    #[regex("y(?&dig)(?&dig)")] YDigDig,
    #[regex("(?&ci)z")] CiZ,
    #[regex("w(?&euro)w")] WEuroW,
    #[regex("(?&alt)")] Alt,
}
#[derive(Logos, Debug, PartialEq, Clone, Copy)]
pub enum P1T {
    #[regex("(?u:(?u:[0-9])+)x")] NumX,
    #[regex("(?u:a|bc)d")] AltD,
    #[regex("y(?u:[0-9])(?u:[0-9])")] YDigDig,
    #[regex("(?u:(?i)q)z")] CiZ,
    #[regex("w(?u:€|e)w")] WEuroW,
    #[regex("(?u:a|bc)")] Alt,
}
const DIGIT: P = P::Class(&[(b'0', b'9')]);
const ALT: P = P::Alt(&[P::Lit(b"a"), P::Lit(b"bc")]);
pub static P1_DEF: Def = Def {
    name: "P1", utf8: true, decide: no_callbacks, log_callbacks: false, default_err: plain_default,
    pats: &[
        Pat { p: P::Cat(&[P::Plus(&DIGIT), P::Lit(b"x")]), prio: 4, act: Act::Tok(1) },
        Pat { p: P::Cat(&[ALT, P::Lit(b"d")]), prio: 4, act: Act::Tok(2) },
        Pat { p: P::Cat(&[P::Lit(b"y"), DIGIT, DIGIT]), prio: 6, act: Act::Tok(3) },
        Pat { p: P::Cat(&[P::Class(&[(b'q', b'q'), (b'Q', b'Q')]), P::Lit(b"z")]), prio: 4, act: Act::Tok(4) },
        Pat { p: P::Cat(&[P::Lit(b"w"), P::Alt(&[P::Lit("€".as_bytes()), P::Lit(b"e")]), P::Lit(b"w")]), prio: 6, act: Act::Tok(5) },
        Pat { p: ALT, prio: 2, act: Act::Tok(6) },
    ],
};
corpus_impl!(P1, str, P1_DEF, |t| match t { P1::NumX => 1, P1::AltD => 2, P1::YDigDig => 3, P1::CiZ => 4, P1::WEuroW => 5, P1::Alt => 6 }, |_e| 0, |_x| (0, true, 0, 0));
corpus_impl!(P1T, str, P1_DEF, |t| match t { P1T::NumX => 1, P1T::AltD => 2, P1T::YDigDig => 3, P1T::CiZ => 4, P1T::WEuroW => 5, P1T::Alt => 6 }, |_e| 0, |_x| (0, true, 0, 0));

// subpatterns whose source starts with `(` and ends with `)` but is NOT one group: the reference must still behave as one group
// (an alternation must not leak, a quantifier after the reference must bind to all of it), also through a nested reference
#[derive(Logos, Debug, PartialEq, Clone, Copy)]
#[logos(utf8 = false)]
#[logos(subpattern grp = r"(g)|(hi)")]
#[logos(subpattern pair = r"(m)(n)")]
#[logos(subpattern sign = r"(?:\+)|(?:-)")]
#[logos(subpattern exp = r"e(?&sign)?7")]
pub enum P3 {
    #[regex("(?&grp)k")] GrpK,
    #[regex("(?&pair)+")] Pairs,
    #[regex("(?&sign)?5(?&exp)")] Num,
}
#[derive(Logos, Debug, PartialEq, Clone, Copy)]
#[logos(utf8 = false)]
pub enum P3T {
    #[regex("(?u:(g)|(hi))k")] GrpK,
    #[regex("(?u:(m)(n))+")] Pairs,
    #[regex(r"(?u:(?:\+)|(?:-))?5(?u:e(?u:(?:\+)|(?:-))?7)")] Num,
}
const SIGN: P = P::Alt(&[P::Lit(b"+"), P::Lit(b"-")]);
pub static P3_DEF: Def = Def {
    name: "P3", utf8: false, decide: no_callbacks, log_callbacks: false, default_err: plain_default,
    pats: &[
        Pat { p: P::Cat(&[P::Alt(&[P::Lit(b"g"), P::Lit(b"hi")]), P::Lit(b"k")]), prio: 4, act: Act::Tok(1) },
        Pat { p: P::Plus(&P::Lit(b"mn")), prio: 4, act: Act::Tok(2) },
        Pat { p: P::Cat(&[P::Opt(&SIGN), P::Lit(b"5e"), P::Opt(&SIGN), P::Lit(b"7")]), prio: 6, act: Act::Tok(3) },
    ],
};
corpus_impl!(P3, bytes, P3_DEF, |t| match t { P3::GrpK => 1, P3::Pairs => 2, P3::Num => 3 }, |_e| 0, |_x| (0, true, 0, 0));
corpus_impl!(P3T, bytes, P3_DEF, |t| match t { P3T::GrpK => 1, P3T::Pairs => 2, P3T::Num => 3 }, |_e| 0, |_x| (0, true, 0, 0));

// byte-string subpattern, byte mode: the reference is spliced with the subpattern's own (non-Unicode) mode
#[derive(Logos, Debug, PartialEq, Clone, Copy)]
#[logos(utf8 = false)]
#[logos(subpattern hi = b"[\\x80-\\xff]")]
#[logos(subpattern lo = "[a-c]")]
#[logos(subpattern any = ".")]
#[logos(subpattern nota = "[^a]")]
pub enum P2 {
    #[regex(b"x(?&hi)")] XHi,
    #[regex(b"(?&lo)(?&hi)(?&lo)")] LoHiLo,
    #[regex("(?&lo)+!")] LoBang,
    // str subpatterns with Unicode-sensitive constructs, referenced from byte-string regexes: they keep their own (?u:...) mode
    #[regex(b"y(?&any)")] YAny,
    #[regex(b"z(?&nota)\\xff")] ZNotA,
}
#[derive(Logos, Debug, PartialEq, Clone, Copy)]
#[logos(utf8 = false)]
pub enum P2T {
    #[regex(b"x(?-u:[\\x80-\\xff])")] XHi,
    #[regex(b"(?u:[a-c])(?-u:[\\x80-\\xff])(?u:[a-c])")] LoHiLo,
    #[regex("(?u:[a-c])+!")] LoBang,
    #[regex(b"y(?u:.)")] YAny,
    #[regex(b"z(?u:[^a])\\xff")] ZNotA,
}
const HI: P = P::Class(&[(0x80, 0xFF)]);
const LO: P = P::Class(&[(b'a', b'c')]);
pub static P2_DEF: Def = Def {
    name: "P2", utf8: false, decide: no_callbacks, log_callbacks: false, default_err: plain_default,
    pats: &[
        Pat { p: P::Cat(&[P::Lit(b"x"), HI]), prio: 4, act: Act::Tok(1) },
        Pat { p: P::Cat(&[LO, HI, LO]), prio: 6, act: Act::Tok(2) },
        Pat { p: P::Cat(&[P::Plus(&LO), P::Lit(b"!")]), prio: 4, act: Act::Tok(3) },
        Pat { p: P::Cat(&[P::Lit(b"y"), ANY_BUT_LF]), prio: 4, act: Act::Tok(4) },
        Pat { p: P::Cat(&[P::Lit(b"z"), P::Alt(&[P::Class(&[(0x00, b'a' - 1), (b'a' + 1, 0x7F)]), NON_ASCII_CHAR]), P::Lit(b"\xff")]), prio: 6, act: Act::Tok(5) },
    ],
};
corpus_impl!(P2, bytes, P2_DEF, |t| match t { P2::XHi => 1, P2::LoHiLo => 2, P2::LoBang => 3, P2::YAny => 4, P2::ZNotA => 5 }, |_e| 0, |_x| (0, true, 0, 0));
corpus_impl!(P2T, bytes, P2_DEF, |t| match t { P2T::XHi => 1, P2T::LoHiLo => 2, P2T::LoBang => 3, P2T::YAny => 4, P2T::ZNotA => 5 }, |_e| 0, |_x| (0, true, 0, 0));

// ------------------------------------------------------------------------------------------------ C12
// M1 (str) is utf8::U1 ; M1B is the same definition with utf8 = false
#[derive(Logos, Debug, PartialEq, Clone, Copy)]
#[logos(utf8 = false)]
pub enum M1B {
    #[token("é")] EAcute,
    #[token("€")] Euro,
    #[token("😀")] Grin,
    #[regex("[a-zß-ö]+")] Letters,
    #[regex("€[^a]")] EuroNotA,
    #[token("€€x")] EuroEuroX,
}
pub static M1B_DEF: Def = Def {
    name: "M1B", utf8: false, decide: no_callbacks, log_callbacks: false, default_err: plain_default,
    pats: crate::defs::utf8::U1_DEF.pats,
};
corpus_impl!(M1B, bytes, M1B_DEF, |t| match t { M1B::EAcute => 1, M1B::Euro => 2, M1B::Grin => 3, M1B::Letters => 4, M1B::EuroNotA => 5, M1B::EuroEuroX => 6 }, |_e| 0, |_x| (0, true, 0, 0));

// M2 (str) is utf8::U2 ; M2B the byte-mode twin
#[derive(Logos, Debug, PartialEq, Clone, Copy)]
#[logos(utf8 = false)]
pub enum M2B {
    #[regex("x.")] XDot,
    #[regex(r#""[^"]*""#)] Str,
    #[token("x")] X,
}
pub static M2B_DEF: Def = Def {
    name: "M2B", utf8: false, decide: no_callbacks, log_callbacks: false, default_err: plain_default,
    pats: crate::defs::utf8::U2_DEF.pats,
};
corpus_impl!(M2B, bytes, M2B_DEF, |t| match t { M2B::XDot => 1, M2B::Str => 2, M2B::X => 3 }, |_e| 0, |_x| (0, true, 0, 0));

// ------------------------------------------------------------------------------------------------ C18
fn o_cb<'s, T: Logos<'s>>(_lex: &mut Lexer<'s, T>) -> bool { true }
fn o_skip_cb<'s, T: Logos<'s>>(_lex: &mut Lexer<'s, T>) {}

/// canonical order: literal, positional callback, priority, ignore, allow_greedy
#[derive(Logos, Debug, PartialEq, Clone, Copy)]
#[logos(utf8 = false)]
#[logos(skip("s+", o_skip_cb, priority = 7, ignore(case)))]
pub enum O1 {
    #[regex("[a-c]+", o_cb, priority = 3, ignore(case))] Abc,
    #[token("ab", callback = o_cb, priority = 9, ignore(case))] Ab,
    #[regex("d.*e", o_cb, priority = 4, ignore(case), allow_greedy = true)] DotStar,
    #[token("A", priority = 1)] UpperA,
}
/// named arguments permuted (the positional callback, where used, stays in second place)
#[derive(Logos, Debug, PartialEq, Clone, Copy)]
#[logos(utf8 = false)]
#[logos(skip("s+", o_skip_cb, ignore(case), priority = 7))]
pub enum O1A {
    #[regex("[a-c]+", o_cb, ignore(case), priority = 3)] Abc,
    #[token("ab", ignore(case), priority = 9, callback = o_cb)] Ab,
    #[regex("d.*e", o_cb, allow_greedy = true, ignore(case), priority = 4)] DotStar,
    #[token("A", priority = 1)] UpperA,
}
/// callback given by name, in every position
#[derive(Logos, Debug, PartialEq, Clone, Copy)]
#[logos(utf8 = false)]
#[logos(skip("s+", priority = 7, callback = o_skip_cb, ignore(case)))]
pub enum O1B {
    #[regex("[a-c]+", priority = 3, ignore(case), callback = o_cb)] Abc,
    #[token("ab", priority = 9, callback = o_cb, ignore(case))] Ab,
    #[regex("d.*e", ignore(case), allow_greedy = true, callback = o_cb, priority = 4)] DotStar,
    #[token("A", priority = 1)] UpperA,
}
pub static O1_DEF: Def = Def {
    name: "O1", utf8: false, decide: o1_decide, log_callbacks: false, default_err: plain_default,
    pats: &[
        Pat { p: P::Plus(&P::Class(&[(b's', b's'), (b'S', b'S')])), prio: 7, act: Act::Skip },
        Pat { p: P::Plus(&P::Class(&[(b'a', b'c'), (b'A', b'C')])), prio: 3, act: Act::Tok(1) },
        Pat { p: P::Cat(&[P::Class(&[(b'a', b'a'), (b'A', b'A')]), P::Class(&[(b'b', b'b'), (b'B', b'B')])]), prio: 9, act: Act::Tok(2) },
        Pat { p: P::Cat(&[P::Class(&[(b'd', b'd'), (b'D', b'D')]), P::Star(&ANY_BUT_LF), P::Class(&[(b'e', b'e'), (b'E', b'E')])]), prio: 4, act: Act::Tok(3) },
        Pat { p: P::Lit(b"A"), prio: 1, act: Act::Tok(4) },
    ],
};
const ANY_BUT_LF: P = P::Alt(&[P::Class(&[(0x00, 0x09), (0x0B, 0x7F)]), NON_ASCII_CHAR]);
fn o1_decide(_k: u8, _inp: &[u8], _s: usize, _e: usize) -> Decision { Decision::DefaultError }
macro_rules! o1_impl { ($t:ident) => { corpus_impl!($t, bytes, O1_DEF, |t| match t { $t::Abc => 1, $t::Ab => 2, $t::DotStar => 3, $t::UpperA => 4 }, |_e| 0, |_x| (0, true, 0, 0)); } }
o1_impl!(O1); o1_impl!(O1A); o1_impl!(O1B);
pub fn o1_skip_byte(b: u8) -> bool { b == b's' || b == b'S' }

/// named *closure* callbacks followed by further named arguments (O1 uses function paths only); canonical order: callback last
#[derive(Logos, Debug, PartialEq, Clone, Copy)]
#[logos(utf8 = false)]
#[logos(skip("#[x-z]*", priority = 20, callback = |_lex| { }))]
pub enum O4 {
    #[regex("[a-c]+", priority = 10, callback = |_lex| { true })] Word,
    #[token("abc")] Abc,
    #[token("sel", ignore(case), callback = |_lex| { true })] Sel,
    #[token("#xy")] HashXy,
}
/// the closure callback first, the other named arguments after it
#[derive(Logos, Debug, PartialEq, Clone, Copy)]
#[logos(utf8 = false)]
#[logos(skip("#[x-z]*", callback = |_lex| { }, priority = 20))]
pub enum O4A {
    #[regex("[a-c]+", callback = |_lex| { true }, priority = 10)] Word,
    #[token("abc")] Abc,
    #[token("sel", callback = |_lex| { true }, ignore(case))] Sel,
    #[token("#xy")] HashXy,
}
pub static O4_DEF: Def = Def {
    name: "O4", utf8: false, decide: o1_decide, log_callbacks: false, default_err: plain_default,
    pats: &[
        Pat { p: P::Cat(&[P::Lit(b"#"), P::Star(&P::Class(&[(b'x', b'z')]))]), prio: 20, act: Act::Skip },
        Pat { p: P::Plus(&P::Class(&[(b'a', b'c')])), prio: 10, act: Act::Tok(1) },
        Pat { p: P::Lit(b"abc"), prio: 6, act: Act::Tok(2) },
        Pat { p: P::Cat(&[P::Class(&[(b's', b's'), (b'S', b'S')]), P::Class(&[(b'e', b'e'), (b'E', b'E')]), P::Class(&[(b'l', b'l'), (b'L', b'L')])]), prio: 6, act: Act::Tok(3) },
        Pat { p: P::Lit(b"#xy"), prio: 6, act: Act::Tok(4) },
    ],
};
macro_rules! o4_impl { ($t:ident) => { corpus_impl!($t, bytes, O4_DEF, |t| match t { $t::Word => 1, $t::Abc => 2, $t::Sel => 3, $t::HashXy => 4 }, |_e| 0, |_x| (0, true, 0, 0)); } }
o4_impl!(O4); o4_impl!(O4A);
pub fn o4_skip_byte(b: u8) -> bool { b == b'#' || (b'x'..=b'z').contains(&b) }

/// one combined #[logos(...)] attribute, items in two different orders (the subpattern stays before its use)
#[derive(Debug, Clone, PartialEq, Default)]
pub struct OErr;
#[derive(Logos, Debug, PartialEq, Clone, Copy)]
#[logos(utf8 = false, error = OErr, subpattern d = "[0-9]", skip "_", extras = u8)]
pub enum O2 {
    #[regex("(?&d)+")] Num,
    #[token("n")] N,
}
#[derive(Logos, Debug, PartialEq, Clone, Copy)]
#[logos(subpattern d = "[0-9]", skip "_", extras = u8, error = OErr, utf8 = false)]
pub enum O2A {
    #[regex("(?&d)+")] Num,
    #[token("n")] N,
}
pub static O2_DEF: Def = Def {
    name: "O2", utf8: false, decide: no_callbacks, log_callbacks: false, default_err: plain_default,
    pats: &[
        Pat { p: P::Lit(b"_"), prio: 2, act: Act::Skip },
        Pat { p: P::Plus(&DIGIT), prio: 2, act: Act::Tok(1) },
        Pat { p: P::Lit(b"n"), prio: 2, act: Act::Tok(2) },
    ],
};
corpus_impl!(O2, bytes, O2_DEF, |t| match t { O2::Num => 1, O2::N => 2 }, |_e| 0, |_x| (0, true, 0, 0));
corpus_impl!(O2A, bytes, O2_DEF, |t| match t { O2A::Num => 1, O2A::N => 2 }, |_e| 0, |_x| (0, true, 0, 0));

// ------------------------------------------------------------------------------------------------ C07
/// the definition of tests/partial.rs
#[derive(Logos, Debug, Clone, Copy, PartialEq)]
pub enum Q1 {
    #[regex(r" ", |_| logos::Skip)]
    #[token(".")]
    Accessor,
    #[token("...")]
    Ellipsis,
}
pub static Q1_DEF: Def = Def {
    name: "Q1", utf8: true, decide: q1_decide, log_callbacks: false, default_err: plain_default,
    pats: &[
        Pat { p: P::Lit(b" "), prio: 2, act: Act::Cb(1) },
        Pat { p: P::Lit(b"."), prio: 2, act: Act::Tok(1) },
        Pat { p: P::Lit(b"..."), prio: 6, act: Act::Tok(2) },
    ],
};
fn q1_decide(_k: u8, _inp: &[u8], _s: usize, _e: usize) -> Decision { Decision::Skip }
corpus_impl!(Q1, str, Q1_DEF, |t| match t { Q1::Accessor => 1, Q1::Ellipsis => 2 }, |_e| 0, |_x| (0, true, 0, 0));

/// look-around: a word boundary decides between Int and Dimension; only used by the relational partial-lexing harness
/// (the specification combinators have no assertions, so this definition has no pattern table)
#[derive(Logos, Debug, Clone, Copy, PartialEq)]
pub enum Q2 {
    #[regex(r"[0-9]+(?-u:\b)")] Int,
    #[regex("[0-9]+[a-z]+")] Dimension,
    #[regex("[a-z]+")] Ident,
    #[token(" ")] Space,
    #[regex(r"x$", priority = 5)] XAtEnd,
}
pub static Q2_DEF: Def = Def {
    name: "Q2", utf8: true, decide: no_callbacks, log_callbacks: false, default_err: plain_default,
    pats: &[
        Pat { p: P::Cat(&[P::Plus(&DIGIT), P::NotWordAhead]), prio: 2, act: Act::Tok(1) },
        Pat { p: P::Cat(&[P::Plus(&DIGIT), P::Plus(&P::Class(&[(b'a', b'z')]))]), prio: 4, act: Act::Tok(2) },
        Pat { p: P::Plus(&P::Class(&[(b'a', b'z')])), prio: 2, act: Act::Tok(3) },
        Pat { p: P::Lit(b" "), prio: 2, act: Act::Tok(4) },
        Pat { p: P::Cat(&[P::Lit(b"x"), P::AtEnd]), prio: 5, act: Act::Tok(5) },
    ],
};
corpus_impl!(Q2, str, Q2_DEF, |t| match t { Q2::Int => 1, Q2::Dimension => 2, Q2::Ident => 3, Q2::Space => 4, Q2::XAtEnd => 5 }, |_e| 0, |_x| (0, true, 0, 0));

/// end-of-input assertion after which NO pattern can consume another byte: the state reached by "." has only the
/// end-of-input edge (Q2's `x$` state also continues into Ident).  ".": FinalDot only when it is the last byte.
#[derive(Logos, Debug, Clone, Copy, PartialEq)]
#[logos(utf8 = false)]
pub enum Q4 {
    #[regex(r"\.$")] FinalDot,
    #[regex("[a-z]+")] Word,
    #[token(" ")] Space,
    #[regex(r";\n?$")] FinalSemi,
}
pub static Q4_DEF: Def = Def {
    name: "Q4", utf8: false, decide: no_callbacks, log_callbacks: false, default_err: plain_default,
    pats: &[
        Pat { p: P::Cat(&[P::Lit(b"."), P::AtEnd]), prio: 2, act: Act::Tok(1) },
        Pat { p: P::Plus(&P::Class(&[(b'a', b'z')])), prio: 2, act: Act::Tok(2) },
        Pat { p: P::Lit(b" "), prio: 2, act: Act::Tok(3) },
        Pat { p: P::Cat(&[P::Lit(b";"), P::Opt(&P::Lit(b"\n")), P::AtEnd]), prio: 4, act: Act::Tok(4) },
    ],
};
corpus_impl!(Q4, bytes, Q4_DEF, |t| match t { Q4::FinalDot => 1, Q4::Word => 2, Q4::Space => 3, Q4::FinalSemi => 4 }, |_e| 0, |_x| (0, true, 0, 0));

// ---- C12: a definition with a Unicode-sensitive *str* subpattern, in str mode and with utf8 = false
#[derive(Logos, Debug, PartialEq, Clone, Copy)]
#[logos(subpattern nota = "[^a]")]
#[logos(subpattern word = r"\w")]
pub enum M3 {
    #[regex("x(?&nota)")] XNotA,
    #[regex("y(?&word)+")] YWord,
    #[token("x")] X,
}
#[derive(Logos, Debug, PartialEq, Clone, Copy)]
#[logos(utf8 = false)]
#[logos(subpattern nota = "[^a]")]
#[logos(subpattern word = r"\w")]
pub enum M3B {
    #[regex("x(?&nota)")] XNotA,
    #[regex("y(?&word)+")] YWord,
    #[token("x")] X,
}
// relational only (no pattern table: \w is too large a class to write out)
pub static M3_DEF: Def = Def { name: "M3", utf8: true, decide: no_callbacks, log_callbacks: false, default_err: plain_default, pats: &[] };
pub static M3B_DEF: Def = Def { name: "M3B", utf8: false, decide: no_callbacks, log_callbacks: false, default_err: plain_default, pats: &[] };
corpus_impl!(M3, str, M3_DEF, |t| match t { M3::XNotA => 1, M3::YWord => 2, M3::X => 3 }, |_e| 0, |_x| (0, true, 0, 0));
corpus_impl!(M3B, bytes, M3B_DEF, |t| match t { M3B::XNotA => 1, M3B::YWord => 2, M3B::X => 3 }, |_e| 0, |_x| (0, true, 0, 0));

// ---- C12 (round-5 seed): a regex with a non-ASCII literal competing with an explicit priority that lies between
// 2 * chars and 2 * bytes of the literal: the default priority must not depend on the mode
#[derive(Logos, Debug, PartialEq, Clone, Copy)]
pub enum M4 {
    #[regex("\u{e9}[a-z]")] Lit,
    #[regex("[\u{e0}-\u{fc}][a-z]", priority = 5)] Class,
    #[regex("[a-z]")] Low,
}
#[derive(Logos, Debug, PartialEq, Clone, Copy)]
#[logos(utf8 = false)]
pub enum M4B {
    #[regex("\u{e9}[a-z]")] Lit,
    #[regex("[\u{e0}-\u{fc}][a-z]", priority = 5)] Class,
    #[regex("[a-z]")] Low,
}
pub static M4_DEF: Def = Def { name: "M4", utf8: true, decide: no_callbacks, log_callbacks: false, default_err: plain_default, pats: &[] };
pub static M4B_DEF: Def = Def { name: "M4B", utf8: false, decide: no_callbacks, log_callbacks: false, default_err: plain_default, pats: &[] };
corpus_impl!(M4, str, M4_DEF, |t| match t { M4::Lit => 1, M4::Class => 2, M4::Low => 3 }, |_e| 0, |_x| (0, true, 0, 0));
corpus_impl!(M4B, bytes, M4B_DEF, |t| match t { M4B::Lit => 1, M4B::Class => 2, M4B::Low => 3 }, |_e| 0, |_x| (0, true, 0, 0));

// ---- C18: a byte-string subpattern that can match invalid UTF-8, listed before / after `utf8 = false`
#[derive(Logos, Debug, PartialEq, Clone, Copy)]
#[logos(utf8 = false, subpattern hi = b"[\x80-\xff]", skip "_")]
pub enum O3 {
    #[regex(b"h(?&hi)")] H,
    #[token("h")] JustH,
}
#[derive(Logos, Debug, PartialEq, Clone, Copy)]
#[logos(subpattern hi = b"[\x80-\xff]", skip "_", utf8 = false)]
pub enum O3A {
    #[regex(b"h(?&hi)")] H,
    #[token("h")] JustH,
}
pub static O3_DEF: Def = Def {
    name: "O3", utf8: false, decide: no_callbacks, log_callbacks: false, default_err: plain_default,
    pats: &[
        Pat { p: P::Lit(b"_"), prio: 2, act: Act::Skip },
        Pat { p: P::Cat(&[P::Lit(b"h"), P::Class(&[(0x80, 0xFF)])]), prio: 4, act: Act::Tok(1) },
        Pat { p: P::Lit(b"h"), prio: 2, act: Act::Tok(2) },
    ],
};
corpus_impl!(O3, bytes, O3_DEF, |t| match t { O3::H => 1, O3::JustH => 2 }, |_e| 0, |_x| (0, true, 0, 0));
corpus_impl!(O3A, bytes, O3_DEF, |t| match t { O3A::H => 1, O3A::JustH => 2 }, |_e| 0, |_x| (0, true, 0, 0));

/// a callback-less skip whose continuation bytes are not themselves skipped (line-comment shape): the partial lexer must not
/// commit it while it can still grow
#[derive(Logos, Debug, Clone, Copy, PartialEq)]
#[logos(utf8 = false)]
#[logos(skip("#[a-z]*"))]
pub enum Q3 {
    #[regex("[a-z]+")] Word,
    #[token(" ")] Space,
}
pub static Q3_DEF: Def = Def {
    name: "Q3", utf8: false, decide: no_callbacks, log_callbacks: false, default_err: plain_default,
    pats: &[
        Pat { p: P::Cat(&[P::Lit(b"#"), P::Star(&P::Class(&[(b'a', b'z')]))]), prio: 2, act: Act::Skip },
        Pat { p: P::Plus(&P::Class(&[(b'a', b'z')])), prio: 2, act: Act::Tok(1) },
        Pat { p: P::Lit(b" "), prio: 2, act: Act::Tok(2) },
    ],
};
corpus_impl!(Q3, bytes, Q3_DEF, |t| match t { Q3::Word => 1, Q3::Space => 2 }, |_e| 0, |_x| (0, true, 0, 0));
