//! Keyword / identifier / number mixes, literal chains, priorities: skip-free byte-mode definitions.
use crate::spec::*;
use crate::corpus_impl;
use logos::Logos;

const LOWER: P = P::Class(&[(b'a', b'z')]);
const DIGIT: P = P::Class(&[(b'0', b'9')]);

// ---- B1: keywords vs identifiers vs numbers (default priorities: literal 2*len, class 2 per element)
#[derive(Logos, Debug, PartialEq, Clone, Copy)]
#[logos(utf8 = false)]
pub enum B1 {
    #[token("if")] If,
    #[token("ifx")] Ifx,
    #[regex("[a-z]+")] Ident,
    #[regex("[0-9]+")] Int,
    #[regex(r"[0-9]+\.[0-9]+")] Float,
}
pub static B1_DEF: Def = Def {
    name: "B1", utf8: false, decide: no_callbacks,
    pats: &[
        Pat { p: P::Lit(b"if"), prio: 4, act: Act::Tok(1) },
        Pat { p: P::Lit(b"ifx"), prio: 6, act: Act::Tok(2) },
        Pat { p: P::Plus(&LOWER), prio: 2, act: Act::Tok(3) },
        Pat { p: P::Plus(&DIGIT), prio: 2, act: Act::Tok(4) },
        Pat { p: P::Cat(&[P::Plus(&DIGIT), P::Lit(b"."), P::Plus(&DIGIT)]), prio: 6, act: Act::Tok(5) },
    ],
};
corpus_impl!(B1, bytes, B1_DEF, |t| match t { B1::If => 1, B1::Ifx => 2, B1::Ident => 3, B1::Int => 4, B1::Float => 5 }, |_e| 0, |_x| (0, true));

// ---- B2: literal chain a / ab / abc / a+ with an explicit priority
#[derive(Logos, Debug, PartialEq, Clone, Copy)]
#[logos(utf8 = false)]
pub enum B2 {
    #[token("a")] A,
    #[token("ab")] Ab,
    #[token("abc")] Abc,
    #[regex("a+", priority = 1)] As,
    #[regex("[b-d]")] Bcd,
}
pub static B2_DEF: Def = Def {
    name: "B2", utf8: false, decide: no_callbacks,
    pats: &[
        Pat { p: P::Lit(b"a"), prio: 2, act: Act::Tok(1) },
        Pat { p: P::Lit(b"ab"), prio: 4, act: Act::Tok(2) },
        Pat { p: P::Lit(b"abc"), prio: 6, act: Act::Tok(3) },
        Pat { p: P::Plus(&P::Lit(b"a")), prio: 1, act: Act::Tok(4) },
        Pat { p: P::Class(&[(b'b', b'd')]), prio: 2, act: Act::Tok(5) },
    ],
};
corpus_impl!(B2, bytes, B2_DEF, |t| match t { B2::A => 1, B2::Ab => 2, B2::Abc => 3, B2::As => 4, B2::Bcd => 5 }, |_e| 0, |_x| (0, true));
