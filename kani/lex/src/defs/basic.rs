//! Keyword / identifier / number mixes, literal chains, priorities: skip-free byte-mode definitions.
use crate::spec::*;
use crate::corpus_impl;
use logos::Logos;

const LOWER: P = P::Class(&[(b'a', b'z')]);
const DIGIT: P = P::Class(&[(b'0', b'9')]);

// ---- B1: keywords vs identifiers vs numbers (default priorities: literal 2*len, class 2 per element)
#[derive(Logos, Debug, PartialEq, Clone, Copy)]
#[logos(utf8 = false)]
pub enum B1 {
    #[token("if")] If,
    #[token("ifx")] Ifx,
    #[regex("[a-z]+")] Ident,
    #[regex("[0-9]+")] Int,
    #[regex(r"[0-9]+\.[0-9]+")] Float,
}
pub static B1_DEF: Def = Def {
    name: "B1", utf8: false, decide: no_callbacks, log_callbacks: false, default_err: plain_default,
    pats: &[
        Pat { p: P::Lit(b"if"), prio: 4, act: Act::Tok(1) },
        Pat { p: P::Lit(b"ifx"), prio: 6, act: Act::Tok(2) },
        Pat { p: P::Plus(&LOWER), prio: 2, act: Act::Tok(3) },
        Pat { p: P::Plus(&DIGIT), prio: 2, act: Act::Tok(4) },
        Pat { p: P::Cat(&[P::Plus(&DIGIT), P::Lit(b"."), P::Plus(&DIGIT)]), prio: 6, act: Act::Tok(5) },
    ],
};
corpus_impl!(B1, bytes, B1_DEF, |t| match t { B1::If => 1, B1::Ifx => 2, B1::Ident => 3, B1::Int => 4, B1::Float => 5 }, |_e| 0, |_x| (0, true, 0, 0));

// ---- B2: literal chain a / ab / abc / a+ with an explicit priority
#[derive(Logos, Debug, PartialEq, Clone, Copy)]
#[logos(utf8 = false)]
pub enum B2 {
    #[token("a")] A,
    #[token("ab")] Ab,
    #[token("abc")] Abc,
    #[regex("a+", priority = 1)] As,
    #[regex("[b-d]")] Bcd,
}
pub static B2_DEF: Def = Def {
    name: "B2", utf8: false, decide: no_callbacks, log_callbacks: false, default_err: plain_default,
    pats: &[
        Pat { p: P::Lit(b"a"), prio: 2, act: Act::Tok(1) },
        Pat { p: P::Lit(b"ab"), prio: 4, act: Act::Tok(2) },
        Pat { p: P::Lit(b"abc"), prio: 6, act: Act::Tok(3) },
        Pat { p: P::Plus(&P::Lit(b"a")), prio: 1, act: Act::Tok(4) },
        Pat { p: P::Class(&[(b'b', b'd')]), prio: 2, act: Act::Tok(5) },
    ],
};
corpus_impl!(B2, bytes, B2_DEF, |t| match t { B2::A => 1, B2::Ab => 2, B2::Abc => 3, B2::As => 4, B2::Bcd => 5 }, |_e| 0, |_x| (0, true, 0, 0));

// ---- B3: early / late accept shapes: a*b, ab?c, quoted string, two-byte "x<any byte>"
#[derive(Logos, Debug, PartialEq, Clone, Copy)]
#[logos(utf8 = false)]
pub enum B3 {
    #[regex("a*b")] AsB,
    #[regex("ab?c")] AbC,
    #[regex(r#""[^"]*""#)] Str,
    #[regex(r"x(?s-u:.)")] XAny,
    #[token("aa")] Aa,
}
const NOT_QUOTE: P = P::Alt(&[P::Class(&[(0x00, 0x21), (0x23, 0x7F)]), NON_ASCII_CHAR]);
pub static B3_DEF: Def = Def {
    name: "B3", utf8: false, decide: no_callbacks, log_callbacks: false, default_err: plain_default,
    pats: &[
        Pat { p: P::Cat(&[P::Star(&P::Lit(b"a")), P::Lit(b"b")]), prio: 2, act: Act::Tok(1) },
        Pat { p: P::Cat(&[P::Lit(b"a"), P::Opt(&P::Lit(b"b")), P::Lit(b"c")]), prio: 4, act: Act::Tok(2) },
        Pat { p: P::Cat(&[P::Lit(b"\""), P::Star(&NOT_QUOTE), P::Lit(b"\"")]), prio: 4, act: Act::Tok(3) },
        Pat { p: P::Cat(&[P::Lit(b"x"), P::Class(&[(0x00, 0xFF)])]), prio: 4, act: Act::Tok(4) },
        Pat { p: P::Lit(b"aa"), prio: 4, act: Act::Tok(5) },
    ],
};
corpus_impl!(B3, bytes, B3_DEF, |t| match t { B3::AsB => 1, B3::AbC => 2, B3::Str => 3, B3::XAny => 4, B3::Aa => 5 }, |_e| 0, |_x| (0, true, 0, 0));

// ---- B4: class rendering: comparison chains with holes, LUT classes, single bytes (byte-only classes)
#[derive(Logos, Debug, PartialEq, Clone, Copy)]
#[logos(utf8 = false)]
pub enum B4 {
    #[regex("(?-u)[0-35-9]")] DigitNot4,
    #[regex("(?-u)[a-cx-z]")] AbcXyz,
    #[regex("(?-u)[A-CE-GI-KM-O]+")] Holes,
    #[regex("(?-u)[\\x80-\\xff]")] High,
    #[token("4")] Four,
    #[regex("(?-u)[!-/][!-/]")] Punct2,
}
pub static B4_DEF: Def = Def {
    name: "B4", utf8: false, decide: no_callbacks, log_callbacks: false, default_err: plain_default,
    pats: &[
        Pat { p: P::Class(&[(b'0', b'3'), (b'5', b'9')]), prio: 2, act: Act::Tok(1) },
        Pat { p: P::Class(&[(b'a', b'c'), (b'x', b'z')]), prio: 2, act: Act::Tok(2) },
        Pat { p: P::Plus(&P::Class(&[(b'A', b'C'), (b'E', b'G'), (b'I', b'K'), (b'M', b'O')])), prio: 2, act: Act::Tok(3) },
        Pat { p: P::Class(&[(0x80, 0xFF)]), prio: 2, act: Act::Tok(4) },
        Pat { p: P::Lit(b"4"), prio: 2, act: Act::Tok(5) },
        Pat { p: P::Cat(&[P::Class(&[(b'!', b'/')]), P::Class(&[(b'!', b'/')])]), prio: 4, act: Act::Tok(6) },
    ],
};
corpus_impl!(B4, bytes, B4_DEF, |t| match t { B4::DigitNot4 => 1, B4::AbcXyz => 2, B4::Holes => 3, B4::High => 4, B4::Four => 5, B4::Punct2 => 6 }, |_e| 0, |_x| (0, true, 0, 0));

// ---- B5: unrolled self-loop (8-byte batch) next to a non-loop: cheap enough for inputs of 7..10 bytes
#[derive(Logos, Debug, PartialEq, Clone, Copy)]
#[logos(utf8 = false)]
pub enum B5 {
    #[regex("[a-z]+")] Word,
    #[token("-")] Dash,
}
pub static B5_DEF: Def = Def {
    name: "B5", utf8: false, decide: no_callbacks, log_callbacks: false, default_err: plain_default,
    pats: &[
        Pat { p: P::Plus(&LOWER), prio: 2, act: Act::Tok(1) },
        Pat { p: P::Lit(b"-"), prio: 2, act: Act::Tok(2) },
    ],
};
corpus_impl!(B5, bytes, B5_DEF, |t| match t { B5::Word => 1, B5::Dash => 2 }, |_e| 0, |_x| (0, true, 0, 0));

// ---- E1: error shapes: literals sharing prefixes, a bracketed number; no pattern matches a proper prefix of another
#[derive(Logos, Debug, PartialEq, Clone, Copy)]
#[logos(utf8 = false)]
pub enum E1 {
    #[token("abc")] Abc,
    #[token("abd")] Abd,
    #[regex("x[0-9]+y")] Num,
    #[token("abcde")] Abcde,
}
pub static E1_DEF: Def = Def {
    name: "E1", utf8: false, decide: no_callbacks, log_callbacks: false, default_err: plain_default,
    pats: &[
        Pat { p: P::Lit(b"abc"), prio: 6, act: Act::Tok(1) },
        Pat { p: P::Lit(b"abd"), prio: 6, act: Act::Tok(2) },
        Pat { p: P::Cat(&[P::Lit(b"x"), P::Plus(&DIGIT), P::Lit(b"y")]), prio: 6, act: Act::Tok(3) },
        Pat { p: P::Lit(b"abcde"), prio: 10, act: Act::Tok(4) },
    ],
};
corpus_impl!(E1, bytes, E1_DEF, |t| match t { E1::Abc => 1, E1::Abd => 2, E1::Num => 3, E1::Abcde => 4 }, |_e| 0, |_x| (0, true, 0, 0));

// ---- E3: a NON-ROOT state with more than two outgoing byte classes and nothing accepted yet (rendered as a jump table by
// both generators): keywords sharing their first byte, no identifier rule - the error ends right before the fatal byte
#[derive(Logos, Debug, PartialEq, Clone, Copy)]
#[logos(utf8 = false)]
pub enum E3 {
    #[token("if")] If,
    #[token("in")] In,
    #[token("is")] Is,
    #[token("io7")] Io7,
    #[regex("[0-9]+")] Num,
}
pub static E3_DEF: Def = Def {
    name: "E3", utf8: false, decide: no_callbacks, log_callbacks: false, default_err: plain_default,
    pats: &[
        Pat { p: P::Lit(b"if"), prio: 4, act: Act::Tok(1) },
        Pat { p: P::Lit(b"in"), prio: 4, act: Act::Tok(2) },
        Pat { p: P::Lit(b"is"), prio: 4, act: Act::Tok(3) },
        Pat { p: P::Lit(b"io7"), prio: 6, act: Act::Tok(4) },
        Pat { p: P::Plus(&DIGIT), prio: 2, act: Act::Tok(5) },
    ],
};
corpus_impl!(E3, bytes, E3_DEF, |t| match t { E3::If => 1, E3::In => 2, E3::Is => 3, E3::Io7 => 4, E3::Num => 5 }, |_e| 0, |_x| (0, true, 0, 0));

// ---- B6: a class that excludes exactly two non-adjacent bytes out of all 256, on an edge to another state (rendered as a
// comparison chain with exceptions, not as a table): character literals and escapes
#[derive(Logos, Debug, PartialEq, Clone, Copy)]
#[logos(utf8 = false)]
pub enum B6 {
    #[regex(r"'((?-u:[^'\\])|\\(?s-u:.))'")] CharLit,
    #[regex(r"\\(?-u:[^\r\n])")] Escape,
    #[token("'")] Quote,
}
pub static B6_DEF: Def = Def {
    name: "B6", utf8: false, decide: no_callbacks, log_callbacks: false, default_err: plain_default,
    pats: &[
        Pat { p: P::Cat(&[P::Lit(b"'"), P::Alt(&[P::Class(&[(0x00, 0x26), (0x28, 0x5B), (0x5D, 0xFF)]), P::Cat(&[P::Lit(b"\\"), P::Class(&[(0x00, 0xFF)])])]), P::Lit(b"'")]), prio: 6, act: Act::Tok(1) },
        Pat { p: P::Cat(&[P::Lit(b"\\"), P::Class(&[(0x00, 0x09), (0x0B, 0x0C), (0x0E, 0xFF)])]), prio: 4, act: Act::Tok(2) },
        Pat { p: P::Lit(b"'"), prio: 2, act: Act::Tok(3) },
    ],
};
corpus_impl!(B6, bytes, B6_DEF, |t| match t { B6::CharLit => 1, B6::Escape => 2, B6::Quote => 3 }, |_e| 0, |_x| (0, true, 0, 0));

// ---- B7: a self-loop over almost all byte values (comment to end of line), long enough inputs to cross the 8-byte batch twice
#[derive(Logos, Debug, PartialEq, Clone, Copy)]
#[logos(utf8 = false)]
pub enum B7 {
    #[regex("(?-u)#[^\n]*", allow_greedy = true)] Comment,
    #[token("\n")] Newline,
    #[regex("[a-z]+")] Word,
}
pub static B7_DEF: Def = Def {
    name: "B7", utf8: false, decide: no_callbacks, log_callbacks: false, default_err: plain_default,
    pats: &[
        Pat { p: P::Cat(&[P::Lit(b"#"), P::Star(&P::Class(&[(0x00, 0x09), (0x0B, 0xFF)]))]), prio: 2, act: Act::Tok(1) },
        Pat { p: P::Lit(b"\n"), prio: 2, act: Act::Tok(2) },
        Pat { p: P::Plus(&LOWER), prio: 2, act: Act::Tok(3) },
    ],
};
corpus_impl!(B7, bytes, B7_DEF, |t| match t { B7::Comment => 1, B7::Newline => 2, B7::Word => 3 }, |_e| 0, |_x| (0, true, 0, 0));

// ---- B8: self-loops over one contiguous range touching 0x00 / 0xFF (a single comparison suffices to test membership)
#[derive(Logos, Debug, PartialEq, Clone, Copy)]
#[logos(utf8 = false)]
pub enum B8 {
    #[regex("(?-u)[\\x00-\\x20]+")] Ctl,
    #[regex("(?-u)[\\x80-\\xff]+")] High,
    #[regex("(?-u)[\\x21-\\x7f]")] Other,
}
pub static B8_DEF: Def = Def {
    name: "B8", utf8: false, decide: no_callbacks, log_callbacks: false, default_err: plain_default,
    pats: &[
        Pat { p: P::Plus(&P::Class(&[(0x00, 0x20)])), prio: 2, act: Act::Tok(1) },
        Pat { p: P::Plus(&P::Class(&[(0x80, 0xFF)])), prio: 2, act: Act::Tok(2) },
        Pat { p: P::Class(&[(0x21, 0x7F)]), prio: 2, act: Act::Tok(3) },
    ],
};
corpus_impl!(B8, bytes, B8_DEF, |t| match t { B8::Ctl => 1, B8::High => 2, B8::Other => 3 }, |_e| 0, |_x| (0, true, 0, 0));
