//! C13: one callback of every return type in the documented table; each decision is a pure function of the matched text,
//! mirrored by `decide`.  Callbacks record what they observe (span(), slice()) in the extras.
use crate::corpus::CbLog;
use crate::spec::*;
use crate::corpus_impl;
use logos::{Filter, FilterResult, Lexer, Logos, Skip};

#[derive(Debug, Clone, PartialEq, Default)]
pub enum KErr { #[default] Dflt, Odd, Two }
impl From<u8> for KErr { fn from(x: u8) -> KErr { if x == 2 { KErr::Two } else { KErr::Odd } } }

fn observe(lex: &mut Lexer<K1>) -> u8 {
    let sp = lex.span();
    let src: &[u8] = lex.source();
    let ok = sp.start <= sp.end && sp.end <= src.len() && lex.slice() == &src[sp.start..sp.end];
    lex.extras.calls += 1;
    if !ok { lex.extras.bad_views = true; }
    lex.extras.last_start = sp.start;
    lex.extras.last_end = sp.end;
    lex.slice()[1] - b'0'
}
fn cb_value(lex: &mut Lexer<K1>) -> u8 { observe(lex) }
fn cb_bool(lex: &mut Lexer<K1>) -> bool { observe(lex) % 2 == 0 }
fn cb_option(lex: &mut Lexer<K1>) -> Option<u8> { let d = observe(lex); if d % 2 == 0 { Some(d) } else { None } }
fn cb_result(lex: &mut Lexer<K1>) -> Result<u8, u8> { let d = observe(lex); if d % 2 == 0 { Ok(d) } else { Err(d % 3) } }
fn cb_filter(lex: &mut Lexer<K1>) -> Filter<u8> { let d = observe(lex); if d % 2 == 0 { Filter::Emit(d) } else { Filter::Skip } }
fn cb_filter_result(lex: &mut Lexer<K1>) -> FilterResult<u8, u8> {
    let d = observe(lex);
    match d % 3 { 0 => FilterResult::Emit(d), 1 => FilterResult::Skip, _ => FilterResult::Error(d % 4) }
}
fn cb_skip(lex: &mut Lexer<K1>) -> Skip { observe(lex); Skip }
fn cb_result_skip(lex: &mut Lexer<K1>) -> Result<Skip, u8> { let d = observe(lex); if d % 2 == 0 { Ok(Skip) } else { Err(d % 3) } }
fn cb_token(lex: &mut Lexer<K1>) -> K1 { let d = observe(lex); if d % 2 == 0 { K1::I } else { K1::A(d) } }
fn cb_result_token(lex: &mut Lexer<K1>) -> Result<K1, u8> { let d = observe(lex); if d % 2 == 0 { Ok(K1::M) } else { Err(d % 3) } }
fn cb_filter_token(lex: &mut Lexer<K1>) -> Filter<K1> { let d = observe(lex); if d % 2 == 0 { Filter::Emit(K1::K) } else { Filter::Skip } }
fn cb_filter_result_token(lex: &mut Lexer<K1>) -> FilterResult<K1, u8> {
    let d = observe(lex);
    match d % 3 { 0 => FilterResult::Emit(K1::B), 1 => FilterResult::Skip, _ => FilterResult::Error(d % 4) }
}
fn cb_unit(lex: &mut Lexer<K1>) { observe(lex); }
/// bump inside a callback: a '!' right after the match belongs to the item
fn cb_bump(lex: &mut Lexer<K1>) {
    observe(lex);
    if lex.remainder().first() == Some(&b'!') { lex.bump(1); }
}

/// bumps inside a callback that then skips: the skipped region includes the bumped byte
fn cb_bump_skip(lex: &mut Lexer<K1>) -> Skip {
    observe(lex);
    if lex.remainder().first() == Some(&b'!') { lex.bump(1); }
    Skip
}

#[derive(Logos, Debug, PartialEq, Clone)]
#[logos(utf8 = false, extras = CbLog, error = KErr)]
pub enum K1 {
    #[regex("a[0-9]", cb_value)] A(u8),
    #[regex("b[0-9]", cb_bool)] B,
    #[regex("c[0-9]", cb_option)] C(u8),
    #[regex("d[0-9]", cb_result)] D(u8),
    #[regex("e[0-9]", cb_filter)] E(u8),
    #[regex("f[0-9]", cb_filter_result)] F(u8),
    #[regex("g[0-9]", cb_skip)] G,
    #[regex("h[0-9]", cb_result_skip)] H,
    #[regex("i[0-9]", cb_token)] I,
    #[regex("j[0-9]", cb_result_token)] J,
    #[regex("k[0-9]", cb_filter_token)] K,
    #[regex("l[0-9]", cb_filter_result_token)] L,
    #[regex("m[0-9]", cb_unit)] M,
    #[regex("n[0-9]", cb_bump)] N,
    #[token("!")] Bang,
    #[regex("o[0-9]", cb_bump_skip)] O,
}
// ids: variant * 10 + payload
fn k1_vid(t: &K1) -> u8 {
    match t {
        K1::A(d) => 10 + d, K1::B => 20, K1::C(d) => 30 + d, K1::D(d) => 40 + d, K1::E(d) => 50 + d, K1::F(d) => 60 + d,
        K1::G => 70, K1::H => 80, K1::I => 90, K1::J => 100, K1::K => 110, K1::L => 120, K1::M => 130, K1::N => 140, K1::Bang => 150, K1::O => 160,
    }
}
fn k1_eid(e: &KErr) -> u8 { match e { KErr::Dflt => 0, KErr::Odd => 1, KErr::Two => 2 } }
/// u8 -> KErr::from: 2 => Two (id 2), anything else => Odd (id 1)
fn err_id(x: u8) -> u8 { if x == 2 { 2 } else { 1 } }

pub fn k1_decide(k: u8, inp: &[u8], s: usize, e: usize) -> Decision {
    let d = inp[s + 1] - b'0';
    match k {
        1 => Decision::Emit(10 + d),
        2 => if d % 2 == 0 { Decision::Emit(20) } else { Decision::DefaultError },
        3 => if d % 2 == 0 { Decision::Emit(30 + d) } else { Decision::DefaultError },
        4 => if d % 2 == 0 { Decision::Emit(40 + d) } else { Decision::Error(err_id(d % 3)) },
        5 => if d % 2 == 0 { Decision::Emit(50 + d) } else { Decision::Skip },
        6 => match d % 3 { 0 => Decision::Emit(60 + d), 1 => Decision::Skip, _ => Decision::Error(err_id(d % 4)) },
        7 => Decision::Skip,
        8 => if d % 2 == 0 { Decision::Skip } else { Decision::Error(err_id(d % 3)) },
        9 => if d % 2 == 0 { Decision::Emit(90) } else { Decision::Emit(10 + d) },
        10 => if d % 2 == 0 { Decision::Emit(130) } else { Decision::Error(err_id(d % 3)) },
        11 => if d % 2 == 0 { Decision::Emit(110) } else { Decision::Skip },
        12 => match d % 3 { 0 => Decision::Emit(20), 1 => Decision::Skip, _ => Decision::Error(err_id(d % 4)) },
        13 => Decision::Emit(130),
        14 => if e < inp.len() && inp[e] == b'!' { Decision::EmitBumped(140, 1) } else { Decision::Emit(140) },
        _ => if e < inp.len() && inp[e] == b'!' { Decision::SkipBumped(1) } else { Decision::Skip },
    }
}
const DIGIT: P = P::Class(&[(b'0', b'9')]);
macro_rules! kp { ($c:literal, $k:expr) => { Pat { p: P::Cat(&[P::Lit($c), DIGIT]), prio: 4, act: Act::Cb($k) } }; }
pub static K1_DEF: Def = Def {
    name: "K1", utf8: false, decide: k1_decide, log_callbacks: true, default_err: plain_default,
    pats: &[
        kp!(b"a", 1), kp!(b"b", 2), kp!(b"c", 3), kp!(b"d", 4), kp!(b"e", 5), kp!(b"f", 6), kp!(b"g", 7),
        kp!(b"h", 8), kp!(b"i", 9), kp!(b"j", 10), kp!(b"k", 11), kp!(b"l", 12), kp!(b"m", 13), kp!(b"n", 14),
        Pat { p: P::Lit(b"!"), prio: 2, act: Act::Tok(150) },
        kp!(b"o", 15),
    ],
};
corpus_impl!(K1, bytes, K1_DEF, |t| k1_vid(&t), |e| k1_eid(&e), |x| x.summary());

// ---- K2: error callback supplies the default errors; skip callbacks of every SkipRetVal type
#[derive(Debug, Clone, PartialEq, Default)]
pub enum K2Err { #[default] Dflt, Made(u8), FromSkip }
impl From<u8> for K2Err { fn from(_: u8) -> K2Err { K2Err::FromSkip } }
fn k2_make_err(lex: &mut Lexer<K2>) -> K2Err { K2Err::Made(lex.span().len() as u8) }
fn sk_unit(_lex: &mut Lexer<K2>) {}
fn sk_skip(_lex: &mut Lexer<K2>) -> Skip { Skip }
fn sk_result_unit(lex: &mut Lexer<K2>) -> Result<(), u8> { if lex.slice()[1] == b'0' { Ok(()) } else { Err(1) } }
fn sk_result_skip(lex: &mut Lexer<K2>) -> Result<Skip, u8> { if lex.slice()[1] == b'0' { Ok(Skip) } else { Err(1) } }

/// user callbacks that happen to be called `skip` (not logos::skip): they must run like any other callback
pub mod named {
    use super::*;
    pub fn skip(lex: &mut Lexer<K2>) -> Result<(), u8> { if lex.slice()[1] == b'0' { Ok(()) } else { Err(1) } }
    pub mod unit { use super::super::*; pub fn skip(lex: &mut Lexer<K2>) -> bool { lex.slice()[1] == b'0' } }
}

#[derive(Logos, Debug, PartialEq, Clone)]
#[logos(utf8 = false)]
#[logos(error(K2Err, k2_make_err))]
#[logos(skip("t[0-9]", named::skip))]
#[logos(skip("p", sk_unit))]
#[logos(skip("q", sk_skip))]
#[logos(skip("r[0-9]", sk_result_unit))]
#[logos(skip("s[0-9]", sk_result_skip))]
pub enum K2 {
    #[token("ab")] Ab,
    #[regex("x[0-9]", |lex| lex.slice()[1] == b'0')] X,
    #[regex("u[0-9]", named::unit::skip)] U,
}
pub fn k2_decide(k: u8, inp: &[u8], s: usize, _e: usize) -> Decision {
    match k {
        1 => Decision::Skip,
        2 => Decision::Skip,
        3 | 4 | 6 => if inp[s + 1] == b'0' { Decision::Skip } else { Decision::Error(250) },
        7 => if inp[s + 1] == b'0' { Decision::Emit(3) } else { Decision::DefaultError },
        // a `false` from a pattern callback is the *default* error, which the error callback makes from the span (2 bytes)
        _ => if inp[s + 1] == b'0' { Decision::Emit(2) } else { Decision::DefaultError },
    }
}
fn k2_default(s: usize, e: usize) -> u8 { (e - s) as u8 }
pub static K2_DEF: Def = Def {
    name: "K2", utf8: false, decide: k2_decide, log_callbacks: false, default_err: k2_default,
    pats: &[
        Pat { p: P::Lit(b"p"), prio: 2, act: Act::Cb(1) },
        Pat { p: P::Lit(b"q"), prio: 2, act: Act::Cb(2) },
        Pat { p: P::Cat(&[P::Lit(b"r"), DIGIT]), prio: 4, act: Act::Cb(3) },
        Pat { p: P::Cat(&[P::Lit(b"s"), DIGIT]), prio: 4, act: Act::Cb(4) },
        Pat { p: P::Lit(b"ab"), prio: 4, act: Act::Tok(1) },
        Pat { p: P::Cat(&[P::Lit(b"x"), DIGIT]), prio: 4, act: Act::Cb(5) },
        Pat { p: P::Cat(&[P::Lit(b"t"), DIGIT]), prio: 4, act: Act::Cb(6) },
        Pat { p: P::Cat(&[P::Lit(b"u"), DIGIT]), prio: 4, act: Act::Cb(7) },
    ],
};
// error ids: Made(n) -> n (length of the error span), FromSkip -> 250, Dflt -> 0
corpus_impl!(K2, bytes, K2_DEF, |t| match t { K2::Ab => 1, K2::X => 2, K2::U => 3 }, |e| match e { K2Err::Dflt => 0, K2Err::Made(n) => n, K2Err::FromSkip => 250 }, |_x| (0, true, 0, 0));
