//! Symbolic-or-replayed inputs.  Under cfg(kani): kani::any / kani::assume / kani::assert.  Natively: values are read
//! from the byte vectors that Kani's concrete playback printed, so the *same harness body* runs against the real code.
#[cfg(kani)]
#[macro_export]
macro_rules! check { ($c:expr, $msg:literal) => { kani::assert($c, $msg) }; }
#[cfg(not(kani))]
#[macro_export]
macro_rules! check { ($c:expr, $msg:literal) => { $crate::sym::check_native($c, $msg) }; }
#[cfg(kani)]
#[macro_export]
macro_rules! cover { ($c:expr, $msg:literal) => { kani::cover!($c, $msg) }; }
#[cfg(not(kani))]
#[macro_export]
macro_rules! cover { ($c:expr, $msg:literal) => { if $c { $crate::sym::covered($msg) } }; }

pub trait SymAny: Sized { fn sym() -> Self; }

#[cfg(kani)]
mod imp {
    use super::SymAny;
    impl SymAny for u8 { fn sym() -> Self { kani::any() } }
    impl SymAny for bool { fn sym() -> Self { kani::any() } }
    impl SymAny for usize { fn sym() -> Self { kani::any() } }
    impl<const N: usize> SymAny for [u8; N] { fn sym() -> Self { kani::any() } }
    pub fn assume(c: bool) { kani::assume(c); }
    /// Under Kani a panic inside `f` is a failed check and the path ends there: reaching the code after `f` means
    /// "returned normally".
    pub fn guarded<F: FnOnce()>(f: F) -> bool { f(); true }
}

#[cfg(not(kani))]
mod imp {
    use super::SymAny;
    use std::cell::{Cell, RefCell};
    use std::collections::VecDeque;
    thread_local! {
        pub static FAILED: Cell<bool> = const { Cell::new(false) };
        pub static INPUT: RefCell<VecDeque<Vec<u8>>> = const { RefCell::new(VecDeque::new()) };
    }
    fn next(n: usize) -> Vec<u8> {
        let v = INPUT.with(|q| q.borrow_mut().pop_front()).unwrap_or_else(|| vec![0; n]);
        let mut v = v; v.resize(n, 0); v
    }
    impl SymAny for u8 { fn sym() -> Self { next(1)[0] } }
    impl SymAny for bool { fn sym() -> Self { next(1)[0] & 1 == 1 } }
    impl SymAny for usize { fn sym() -> Self { let v = next(8); usize::from_le_bytes(v.try_into().unwrap()) } }
    impl<const N: usize> SymAny for [u8; N] { fn sym() -> Self { let mut a = [0u8; N]; for x in a.iter_mut() { *x = u8::sym(); } a } }
    pub struct AssumeViolated;
    pub fn assume(c: bool) { if !c { std::panic::resume_unwind(Box::new(AssumeViolated)); } }
    pub fn guarded<F: FnOnce()>(f: F) -> bool {
        match std::panic::catch_unwind(std::panic::AssertUnwindSafe(f)) {
            Ok(()) => true,
            Err(e) => { if e.is::<AssumeViolated>() { std::panic::resume_unwind(e) } else { false } }
        }
    }
    pub fn check_native(c: bool, msg: &'static str) {
        if !c { println!("REPLAY-FAIL: {}", msg); FAILED.with(|f| f.set(true)); }
    }
    pub fn covered(msg: &'static str) { println!("REPLAY-COVER: {}", msg); }
    /// Run `f` on the given playback vectors. Returns Some(true) = all checks held, Some(false) = a check failed or the
    /// real code panicked outside `guarded`, None = the input violates an `assume`.
    pub fn run_with_input<F: FnOnce()>(vals: Vec<Vec<u8>>, f: F) -> Option<bool> {
        INPUT.with(|q| *q.borrow_mut() = vals.into());
        FAILED.with(|x| x.set(false));
        let prev = std::panic::take_hook();
        std::panic::set_hook(Box::new(|info| {
            if info.payload().is::<AssumeViolated>() { return; }
            println!("REPLAY-NOTE: panic raised by the code under test: {}", info);
        }));
        let r = std::panic::catch_unwind(std::panic::AssertUnwindSafe(f));
        std::panic::set_hook(prev);
        match r {
            Ok(()) => Some(!FAILED.with(|x| x.get())),
            Err(e) => if e.is::<AssumeViolated>() { None } else { println!("REPLAY-FAIL: the real code panicked"); Some(false) },
        }
    }
}
pub use imp::*;
pub fn any<T: SymAny>() -> T { T::sym() }
