#!/usr/bin/env python3
"""Generate src/harness_list.rs (deterministic).

Harness kinds
  spec_<D>_n<N>_s<S>            fully symbolic input of N bytes, one attempt from S, against the specification
  specc_...                     same with the vacuity cover points
  ctx_<D>_<ctx>_s<S>            concrete context with symbolic bytes ('?'), against the specification
  skel_<D>_<skel>_n<N>_s<S>     skip skeleton: concrete skip bytes, symbolic non-skip bytes
"""
import sys, json

def esc(c):
    keep = 'abcdefghijklmnopqrstuvwxyzABCDEFGHIJKLMNOPQRSTUVWXYZ0123456789'
    if isinstance(c, int): return '_%02x' % c
    return c if c in keep else ('Q' if c == '?' else '_%02x' % ord(c))

def ctx_bytes(c):
    """context string -> list of int or None; '?' = symbolic; non-ASCII characters are UTF-8 encoded"""
    out = []
    for ch in c:
        if ch == '?': out.append(None)
        else: out += list(ch.encode('utf-8'))
    return out

def ctx_name(c): return ''.join(esc(b) if isinstance(b, int) and not (48 <= b < 58 or 65 <= b < 91 or 97 <= b < 123) else ('Q' if b is None else chr(b)) for b in ctx_bytes(c))

# (Type, skip bytes, full-symbolic lengths, starts for full-symbolic, contexts, starts for contexts)
DEFS = [
    ('basic::B1', '', range(0, 4), (0, 1), ['if?', 'i?', 'ifx?', '1.?', '1?', '12.3?', 'a1?', 'i??', '1.??', '?', '9.?5', 'if?x', 'zif?'], (0, 1)),
    ('basic::B2', '', range(0, 7), (0, 1, 2), ['a?', 'ab?', 'abc?', 'aa?', 'aaa?', 'b?', 'ab??'], (0, 1)),
    ('basic::B3', '', range(0, 2), (0,), ['a?', 'aa?', 'ab?', 'aab?', 'x?', '"?', '"a?', '""?', 'a??', '"é?', '"a"?', 'ac?', 'abc?'], (0,)),
    ('basic::B4', '', range(0, 5), (0, 1), ['A?', 'AB?', '!?', '4?', 'c?', '!!?', 'AE??'], (0, 1)),
    ('basic::B5', '', range(0, 11), (0, 1), ['abcdefg?', 'abcdefgh?', 'abcdefghi?', 'abcdefghijklmnop?', 'abcdefghijklmno-?', '-abcdefgh?x'], (0, 1)),
    ('basic::E1', '', range(0, 6), (0, 1), ['ab?', 'abc?', 'abcd?', 'x1?', 'x12?', 'x?', 'abcd??', 'x1y?'], (0, 1)),
    ('skip::S1', ' \t', range(0, 2), (0,), [' a?', 'ab ?', 'a?', 'a ?', ' ?', '  ?', 'a \t?', '1 ? ', ' =?', 'a??', ' ??', 'ab=?1', '\t? a'], (0, 1)),
    ('skip::S2', '\n-', range(0, 3), (0,), ['-?', '--?', '\n?', '---?', 'a-?', '--\n?', '-??', '->?'], (0, 1)),
    ('utf8::U1', '', range(0, 3), (0,), ['é?', '€?', '€€?', '€€x?', '😀?', 'aß?', '?', 'ö?', '€é?', 'Ã?'[:0] + 'a?'], (0,)),
    ('utf8::U2', '', range(0, 2), (0,), ['x?', 'x??', '"?', '"é?', '"€"?', 'x€?', '"a?'], (0,)),
    ('utf8::E2', '', range(0, 4), (0,), ['a?', 'a€?', 'a??', '€?', '😀?', '???', '????'], (0,)),
]

out = ['harnesses! {']
index = {}
def add(name, unwind, body, **meta):
    out.append('    %s [%d] => %s;' % (name, unwind, body))
    index[name] = meta

for (ty, skipb, lens, fstarts, ctxs, cstarts) in DEFS:
    short = ty.split('::')[-1]
    for n in lens:
        for s in fstarts:
            if s > n: continue
            add('spec_%s_n%d_s%d' % (short, n, s), max(n + 5, 10), 'attempt_vs_spec::<%s, %d>(&any(), %d)' % (ty, n, s), d=short, kind='spec', n=n, s=s, sym=n)
            if n <= 2 and s == 0:
                add('specc_%s_n%d_s%d' % (short, n, s), max(n + 5, 10), 'attempt_vs_spec_cov::<%s, %d>(&any(), %d)' % (ty, n, s), d=short, kind='specc', n=n, s=s, sym=n)
    seen = set()
    for c in ctxs:
        bs = ctx_bytes(c)
        if not bs: continue
        arr = ', '.join('None' if b is None else 'Some(%d)' % b for b in bs)
        nsk = (sum(1 for b in bs if b is not None and chr(b) in skipb) + bs.count(None)) if skipb else 0
        for s in cstarts:
            if s > len(bs): continue
            name = 'ctx_%s_%s_s%d' % (short, ctx_name(c), s)
            if name in seen: continue
            seen.add(name)
            add(name, max(len(bs) + 6, 10), 'attempt_context::<%s, %d>([%s], %d, %d, false)' % (ty, len(bs), arr, s, nsk), d=short, kind='ctx', n=len(bs), s=s, sym=bs.count(None), ctx=c)

# skeletons: concrete skip bytes, '?' = symbolic non-skip byte
SKEL = [
    ('skip::S1', 'skip::s1_skip_byte', [' ?', '? ', ' ', '\t?', '  ?', ' ? '], (0,)),
    ('skip::S2', 'skip::s2_skip_byte', ['-?', '--?', '?-', '?--', '\n?', '-\n-', '--', '---', '?\n?', '--?-', '-?-?', '\n-?', '??', '--\n?', '?--?', '-'], (0, 1)),
]
for (ty, pred, skels, starts) in SKEL:
    short = ty.split('::')[-1]
    for sk in skels:
        bs = ctx_bytes(sk)
        arr = ', '.join('None' if b is None else 'Some(%d)' % b for b in bs)
        for s in starts:
            if s > len(bs): continue
            for cov in (False, True):
                add('skel%s_%s_%s_s%d' % ('c' if cov else '', short, ctx_name(sk), s), max(len(bs) + 6, 10),
                    'attempt_skeleton::<%s, %d>([%s], %d, %s, %s)' % (ty, len(bs), arr, s, pred, 'true' if cov else 'false'),
                    d=short, kind='skelc' if cov else 'skel', n=len(bs), s=s, sym=bs.count(None), ctx=sk)

out.append('}')
dst = sys.argv[1] if len(sys.argv) > 1 else 'src/harness_list.rs'
open(dst, 'w').write('\n'.join(out) + '\n')
json.dump(index, open(dst.replace('harness_list.rs', 'harness_index.json'), 'w'), indent=0)
