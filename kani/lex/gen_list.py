#!/usr/bin/env python3
"""Generate src/harness_list.rs.  Names: <kind>_<Def>_n<N>_s<start>."""
import sys
SPEC = [  # (module::Type, lengths, starts)
    ('basic::B1', range(0, 7), (0, 1, 2)),
    ('basic::B2', range(0, 7), (0, 1, 2)),
]
out = ['harnesses! {']
for (ty, lens, starts) in SPEC:
    short = ty.split('::')[-1]
    for n in lens:
        for s in starts:
            if s > n: continue
            out.append('    spec_%s_n%d_s%d [%d] => attempt_vs_spec::<%s, %d>(&any(), %d);' % (short, n, s, max(n + 5, 10), ty, n, s))
out.append('}')
open(sys.argv[1] if len(sys.argv) > 1 else 'src/harness_list.rs', 'w').write('\n'.join(out) + '\n')
