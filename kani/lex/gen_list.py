#!/usr/bin/env python3
"""Generate src/harness_list.rs (deterministic).

Harness kinds
  spec_<D>_n<N>_s<S>            fully symbolic input of N bytes, one attempt from S, against the specification
  specc_...                     same with the vacuity cover points
  ctx_<D>_<ctx>_s<S>            concrete context with symbolic bytes ('?'), against the specification
  skel_<D>_<skel>_n<N>_s<S>     skip skeleton: concrete skip bytes, symbolic non-skip bytes
"""
import sys, json

def esc(c):
    keep = 'abcdefghijklmnopqrstuvwxyzABCDEFGHIJKLMNOPQRSTUVWXYZ0123456789'
    if isinstance(c, int): return '_%02x' % c
    return c if c in keep else ('Q' if c == '?' else '_%02x' % ord(c))

def ctx_bytes(c):
    """context string -> list of int or None; '?' = symbolic; non-ASCII characters are UTF-8 encoded"""
    out = []
    for ch in c:
        if ch == '?': out.append(None)
        else: out += list(ch.encode('utf-8'))
    return out

def ctx_name(c): return ''.join(esc(b) if isinstance(b, int) and not (48 <= b < 58 or 65 <= b < 91 or 97 <= b < 123) else ('_q' if b is None else chr(b)) for b in ctx_bytes(c))

# (Type, skip bytes, full-symbolic lengths, starts for full-symbolic, contexts, starts for contexts)
DEFS = [
    ('basic::B1', '', range(0, 4), (0, 1), ['if?', 'i?', 'ifx?', '1.?', '1?', '12.3?', 'a1?', 'i??', '1.??', '?', '9.?5', 'if?x', 'zif?'], (0, 1)),
    ('basic::B2', '', range(0, 7), (0, 1, 2), ['a?', 'ab?', 'abc?', 'aa?', 'aaa?', 'b?', 'ab??'], (0, 1)),
    ('basic::B3', '', range(0, 2), (0,), ['a?', 'aa?', 'ab?', 'aab?', 'x?', '"?', '"a?', '""?', 'a??', '"é?', '"a"?', 'ac?', 'abc?'], (0,)),
    ('basic::B4', '', range(0, 5), (0, 1), ['A?', 'AB?', '!?', '4?', 'c?', '!!?', 'AE??'], (0, 1)),
    ('basic::B5', '', range(0, 11), (0, 1), ['abcdefg?', 'abcdefgh?', 'abcdefghi?', 'abcdefghijklmnop?', 'abcdefghijklmno-?', '-abcdefgh?x'], (0, 1)),
    ('basic::B6', '', range(0, 3), (0,), ["'?", "'?'", "'\\\\?", "'\\\\?'", "\\\\?", "'a?", "''?", "??"], (0,)),
    ('basic::B7', '', range(0, 3), (0,), ['#?', '#abcdefghi?', '#abcdefghij?', '#abcdefghijk?', '#abcdefghijklmnop?', '#abcdefghijklmnopqr?', '#abcdefghijklmnopqrstuvwx?', 'ab#cdefghijkl?', '#abcdefghij\\n?', '?', '#??'], (0, 2)),
    ('basic::B8', '', range(0, 3), (0,), ['\x01?', '\x01\x02?', '\x00\x20?', '\xff\xfe?', '\x80?', '\x01\x02\x03\x04\x05\x06\x07\x08\x09?', 'a?', '\xff\xfe\xfd\xfc\xfb\xfa\xf9\xf8\xf7\xf6?'], (0,)),
    ('basic::E1', '', range(0, 6), (0, 1), ['ab?', 'abc?', 'abcd?', 'x1?', 'x12?', 'x?', 'abcd??', 'x1y?'], (0, 1)),
    ('basic::E3', '', range(0, 4), (0, 1), ['i?', 'io?', 'i7?', 'ix?', 'io7?', '?', 'i??', '7i?'], (0, 1)),
    ('skip::S1', ' \t', range(0, 2), (0,), [' a?', 'ab ?', 'a?', 'a ?', ' ?', '  ?', 'a \t?', '1 ? ', ' =?', 'a??', ' ??', 'ab=?1', '\t? a'], (0, 1)),
    ('skip::S3', ' ', range(0, 2), (0,), [' \r?', 'a \r?', ' \r\n?', '  \r?', 'a  ?', ' ?', '\r?', ' \rb?', ' \r?b'], (0, 1)),
    ('skip::S2', '\n-', range(0, 3), (0,), ['-?', '--?', '\n?', '---?', 'a-?', '--\n?', '-??', '->?'], (0, 1)),
    ('utf8::U1', '', range(0, 3), (0,), ['é?', '€?', '€€?', '€€x?', '😀?', 'aß?', '?', 'ö?', '€é?', 'Ã?'[:0] + 'a?'], (0,)),
    ('utf8::U2', '', range(0, 2), (0,), ['x?', 'x??', '"?', '"é?', '"€"?', 'x€?', '"a?'], (0,)),
    ('callbacks::K1', 'efghklo', range(0, 2), (0,), [c + '?' for c in 'abcdefghijklmno'] + ['n?!', 'n5?', 'e1a?', 'g0b?', 'f1f4c?', 'h0m?', 'l1??', '!?', 'n1!?', 'o1!?', 'o1!a?', 'o?!', 'o1a?'], (0,)),
    ('callbacks::K2', 'pqrst', range(0, 2), (0,), ['p?', 'q?', 'r?', 's?', 'x?', 'pqa?', 'r0x?', 's0?', '?', 'a?', 'r1?', 'pr0qs0x?', 't?', 't0x?', 'u?', 't0u?'], (0,)),
    ('literal::L1', '', range(0, 3), (0, 1), ['a?', 'a.?', 'a.b?', 'a.b*?', '[?', '[x?', '\\?', '$?', 'a|?', '+?', 'a??', '?0', 'ab?'], (0,)),
    ('literal::L2', '', range(0, 3), (0,), ['é?', 'é|?', 'é|€?', '.?', 'é??', '\\?'], (0,)),
    ('literal::I1', 'zZ', range(0, 2), (0,), ['a?', 'A?', 'k?', 'K?', 'x?', 'X?', 'kß?', 'K?\u1e9e'[:2], 'z?', 'Za?', 'a.?', 'q?', '\u212a?', 'k??', 'ks?', 'k\u017f?', '\u212as?', '\u212a\u017f?', 'K\u1e9e?', '\u212a\u00df?'], (0,)),
    ('literal::I2', '', range(0, 4), (0, 1), ['k?', 'K?', 'a?', 'y?', 'Z?', 'ab?', '\t?', '\td?', '\tD?', '\x00?', '\x9d?', '\x9dE?', '\x0f?'], (0,)),
    ('twins::P1', '', range(0, 2), (0,), ['1?', '12?', '1x?', 'a?', 'bc?', 'b?', 'y1?', 'y12?', 'q?', 'Q?', 'w?', 'w€?', 'we?', 'ad?', '??'], (0,)),
    ('twins::P2', '', range(0, 3), (0,), ['x?', 'a?', 'ab?', 'abc?', 'b!?', '??', 'y?', 'y\u00e9?', 'z?', 'z\u00e9?', 'zb?'], (0,)),
    ('twins::P3', '', range(0, 3), (0,), ['g?', 'gk?', 'h?', 'hi?', 'hik?', 'mn?', 'mnm?', 'mnmn?', '5e?', '-5e+?', '5e-7?', '+?', '?'], (0,)),
    ('twins::O1', 'sS', range(0, 2), (0,), ['a?', 'ab?', 'A?', 'Ab?', 'd?', 'dxe?', 'dxex?', 's?', 'sSa?', 'abc?', 'D?e'], (0,)),
    ('twins::O4', '#xyz', range(0, 2), (0,), ['a?', 'ab?', 'abc?', 'se?', 'sel?', 'SE?', '#xy a?', '#xya?', '?'], (0,)),
    ('twins::O2', '_', range(0, 3), (0,), ['1?', '_?', 'n?', '_1?', '12_?'], (0,)),
    ('twins::O3', '_', range(0, 3), (0,), ['h?', '_h?', 'h\u00e9?'], (0,)),
    ('twins::Q1', ' ', range(0, 4), (0,), ['.?', '..?', '...?', ' ?', '. ?', '.. .?'], (0,)),
    ('twins::Q2', '', range(0, 3), (0,), ['1?', '12?', '1a?', '1 ?', 'x?', 'ax?', '7', '12', 'x', 'ab x', '1_?', '12 ?3', '?'], (0, 3)),
    ('twins::Q4', '', range(0, 3), (0, 1), ['.?', 'a.?', '.', 'a.', ';?', ';\n?', ';\n', 'a. ?', '?'], (0, 1)),
    ('twins::Q3', '#abcdefghijklmnopqrstuvwxyz', range(0, 3), (0,), ['#?', '#a?', 'x#a?', 'a ?', '#ab ?', '?'], (0,)),
    ('utf8::E2', '', range(0, 4), (0,), ['a?', 'a€?', 'a??', '€?', '😀?', '???', '????', '\U00010000?', '\U00040000?', '\U00010000a?', 'a\U0010ffff?', '\u20ada?'], (0,)),
]

out = ['harnesses! {']
index = {}
def add(name, unwind, body, **meta):
    out.append('    %s [%d] => %s;' % (name, unwind, body))
    meta['unwind'] = unwind
    index[name] = meta

for (ty, skipb, lens, fstarts, ctxs, cstarts) in DEFS:
    short = ty.split('::')[-1]
    for n in lens:
        for s in fstarts:
            if s > n: continue
            msk = n if skipb else 0
            add('spec_%s_n%d_s%d' % (short, n, s), max(n + 3, 4), 'attempt_vs_spec_sk::<%s, %d>(&any(), %d, %d, false)' % (ty, n, s, msk), d=short, kind='spec', n=n, s=s, sym=n)
            if n <= 2 and s == 0:
                add('specc_%s_n%d_s%d' % (short, n, s), max(n + 3, 4), 'attempt_vs_spec_sk::<%s, %d>(&any(), %d, %d, true)' % (ty, n, s, msk), d=short, kind='specc', n=n, s=s, sym=n)
    seen = set()
    for c in ctxs:
        bs = ctx_bytes(c)
        if not bs: continue
        arr = ', '.join('None' if b is None else 'Some(%d)' % b for b in bs)
        nsk = (sum(1 for b in bs if b is not None and chr(b) in skipb) + bs.count(None)) if skipb else 0
        for s in cstarts:
            if s > len(bs): continue
            name = 'ctx_%s_%s_s%d' % (short, ctx_name(c), s)
            if name in seen: continue
            seen.add(name)
            add(name, max(len(bs) + 3, 4), 'attempt_context::<%s, %d>([%s], %d, %d, false)' % (ty, len(bs), arr, s, nsk), d=short, kind='ctx', n=len(bs), s=s, sym=bs.count(None), ctx=c)
            add('ctxc' + name[3:], max(len(bs) + 3, 4), 'attempt_context::<%s, %d>([%s], %d, %d, true)' % (ty, len(bs), arr, s, nsk), d=short, kind='ctxc', n=len(bs), s=s, sym=bs.count(None), ctx=c)

# skeletons: concrete skip bytes, '?' = symbolic non-skip byte
SKEL = [
    ('skip::S1', 'skip::s1_skip_byte', [' ?', '? ', ' ', '\t?', '  ?', ' ? '], (0,)),
    ('skip::S2', 'skip::s2_skip_byte', ['-?', '--?', '?-', '?--', '\n?', '-\n-', '--', '---', '?\n?', '--?-', '-?-?', '\n-?', '??', '--\n?', '?--?', '-'], (0, 1)),
]
for (ty, pred, skels, starts) in SKEL:
    short = ty.split('::')[-1]
    for sk in skels:
        bs = ctx_bytes(sk)
        arr = ', '.join('None' if b is None else 'Some(%d)' % b for b in bs)
        for s in starts:
            if s > len(bs): continue
            for cov in (False, True):
                add('skel%s_%s_%s_s%d' % ('c' if cov else '', short, ctx_name(sk), s), max(len(bs) + 3, 4),
                    'attempt_skeleton::<%s, %d>([%s], %d, %s, %s)' % (ty, len(bs), arr, s, pred, 'true' if cov else 'false'),
                    d=short, kind='skelc' if cov else 'skel', n=len(bs), s=s, sym=bs.count(None), ctx=sk)

# ---- relational harnesses
def ctx_arr(c):
    bs = ctx_bytes(c)
    return bs, ', '.join('None' if b is None else 'Some(%d)' % b for b in bs)
TWINS = [  # (A, B, need_utf8, contexts)
    ('twins::P1', 'twins::P1T', True, ['?', '??', '1?', '12?', '1x?', 'a?', 'bc?', 'b?', 'bcd?', 'y1?', 'y12?', 'q?', 'Q?', 'qz?', 'w?', 'w€?', 'we?', 'wew?', 'ad?']),
    ('twins::P2', 'twins::P2T', False, ['?', '??', 'x?', 'a?', 'ab?', 'abc?', 'b!?', 'a??', 'y?', 'y??', 'y\u00e9?', 'z?', 'z\u00e9?', 'zb?', 'z??']),
    ('twins::P3', 'twins::P3T', False, ['?', '??', 'g?', 'gk?', 'h?', 'hi?', 'hik?', 'mn?', 'mnm?', 'mnmn?', '5e?', '-5e+?', '5e-7?', '+?']),
    ('twins::O1', 'twins::O1A', False, ['?', '??', 'a?', 'ab?', 'A?', 'Ab?', 'd?', 'dxe?', 'dxex?', 's?', 'sSa?', 'abc?', 'D?e']),
    ('twins::O1', 'twins::O1B', False, ['?', '??', 'a?', 'ab?', 'A?', 'Ab?', 'd?', 'dxe?', 'dxex?', 's?', 'sSa?', 'abc?', 'D?e']),
    ('twins::O4', 'twins::O4A', False, ['?', 'a?', 'ab?', 'abc?', 'se?', 'sel?', 'SE?', 'SEL?', '#xy a?', '#xya?', '#x?']),
    ('twins::O2', 'twins::O2A', False, ['?', '??', '???', '1?', '_?', 'n?', '_1?', '12_?']),
    ('twins::O3', 'twins::O3A', False, ['?', '??', 'h?', '_h?']),
]
for (a, b, u8_, ctxs) in TWINS:
    sa, sb = a.split('::')[-1], b.split('::')[-1]
    for c in ctxs:
        bs, arr = ctx_arr(c)
        add('twin_%s_%s_%s_s0' % (sa, sb, ctx_name(c)), max(len(bs) + 3, 4),
            'twins_agree_ctx::<%s, %s, %d>([%s], 0, %s)' % (a, b, len(bs), arr, 'true' if u8_ else 'false'),
            d=sa, kind='twin', n=len(bs), s=0, sym=bs.count(None), ctx=c, other=sb)
MODES = [
    ('utf8::U1', 'twins::M1B', ['?', '??', 'é?', '€?', '€€?', '€€x?', '😀?', 'aß?', 'ö?', '€é?', 'a?', '???', 'a???']),
    ('utf8::U2', 'twins::M2B', ['?', '??', 'x?', 'x??', '"?', '"é?', '"€"?', 'x€?', '"a?', 'x???']),
    ('twins::M3', 'twins::M3B', ['?', '??', 'x?', 'x??', 'x\u00e9?', 'y?', 'y??', 'y\u00e9?', 'y\u00e9\u00f6?', 'x€?']),
    ('twins::M4', 'twins::M4B', ['\u00e9?', '\u00e9a?', 'a\u00e9?', '\u00e0?', '?']),
]
for (a, b, ctxs) in MODES:
    sa, sb = a.split('::')[-1], b.split('::')[-1]
    for c in ctxs:
        bs, arr = ctx_arr(c)
        add('modes_%s_%s_%s_s0' % (sa, sb, ctx_name(c)), max(len(bs) + 3, 4),
            'modes_agree::<%s, %s, %d>([%s], 0)' % (a, b, len(bs), arr), d=sa, kind='modes', n=len(bs), s=0, sym=bs.count(None), ctx=c, other=sb)
PART = [  # (T, contexts, start)  -- every split point k < N
    ('twins::Q1', ['.?', '..?', '...?', ' .?', '. ?', '??', '???', '.. ?'], 0),
    ('twins::Q2', ['1?', '10?', '10p?', '7 ?', 'w 10?', '1??', 'x?', 'ax?'], 0),
    ('twins::Q3', ['#?', '#a?', '#ab?', 'x#a?', 'a #b?', '#a b?', '#ab x?', '#abc x?'], 0),
    ('twins::Q4', ['.?', 'a.?', ';?', ';\n?'], 0),
    ('basic::B1', ['i?', 'if?', 'ifx?', '1?', '1.?', '1.5?', '??', 'a1?'], 0),
    ('basic::B2', ['a?', 'ab?', 'abc?', 'aa?', '??', '???'], 0),
    ('basic::E1', ['ab?', 'abc?', 'abcd?', 'x1?', 'x?y'], 0),
    ('basic::E3', ['i?', 'io?', 'io7?'], 0),
    ('skip::S2', ['-?', '--?', '-\n?', '->?'], 0),
    ('utf8::U1', ['€?', '€€?', 'é?', 'a?'], 0),
]
for (t, ctxs, st) in PART:
    short = t.split('::')[-1]
    for c in ctxs:
        bs, arr = ctx_arr(c)
        for k in range(st, len(bs)):
            add('part_%s_%s_k%d' % (short, ctx_name(c), k), max(len(bs) + 3, 4),
                'partial_ctx::<%s, %d, %d>([%s], %d)' % (t, len(bs), k, arr, st), d=short, kind='part', n=len(bs), s=st, sym=bs.count(None), ctx=c, k=k)
HIST = ['if?', 'ab?c', 'a?', '1.?', 'abc?', '?', 'ifx?ab', 'a1?']
for c in HIST:
    bs, arr = ctx_arr(c)
    for k in ('morph', 'clone', 'spanned'):
        add('hist_%s_%s' % (k, ctx_name(c)), max(len(bs) + 3, 4), 'history_%s::<%d>([%s])' % (k, len(bs), arr), d='B1B2', kind='hist', n=len(bs), s=0, sym=bs.count(None), ctx=c)
out.append('}')
dst = sys.argv[1] if len(sys.argv) > 1 else 'src/harness_list.rs'
# optional second argument: a file with harness names, one per line - only those are emitted (Kani generates one goto
# binary per harness in the crate, so compiling all ~1500 of them costs minutes and gigabytes); the index stays complete
if len(sys.argv) > 2:
    keep = set(l.strip() for l in open(sys.argv[2]) if l.strip())
    out = [l for l in out if not l.startswith('    ') or l.strip().split(' ')[0] in keep]
open(dst, 'w').write('\n'.join(out) + '\n')
import os
json.dump(index, open(os.path.join(os.path.dirname(os.path.abspath(dst)), 'harness_index.json'), 'w'), indent=0)
