//! Harness table.  `harnesses!` emits, for each entry, a `#[kani::proof]` function under cfg(kani) and an arm of the
//! native dispatcher `run_native` (replay).  One const-generic instantiation per buffer length: stack arrays are distinct
//! CBMC objects, so any access past the slice is an out-of-bounds failure.
use super::*;
use crate::sym::any;

macro_rules! harnesses {
    ($( $name:ident [$unwind:expr] => $body:expr; )*) => {
        $( #[cfg(kani)] #[kani::proof] #[kani::unwind($unwind)] fn $name() { $body } )*
        #[cfg(not(kani))]
        pub fn run_native(name: &str) -> bool {
            match name { $( stringify!($name) => { $body; true } )* _ => false }
        }
        pub const HARNESSES: &[&str] = &[ $( stringify!($name) ),* ];
    };
}

include!("harness_list.rs");
