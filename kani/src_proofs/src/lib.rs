//! K-src: Kani harnesses over the public and #[doc(hidden)] API of the real `logos` runtime crate.
//! (a) memory-model complement of the Verus unit V-src: every raw read / unchecked slice inside its object,
//!     for exactly sized buffers of every length 0..=L; offset fully symbolic (loop-free => complete in offset,
//!     bounded in length);
//! (b) twins of loop-free Verus contracts (read, bump, is_boundary) used to obtain concrete inputs.
//! The same bodies build natively (`sym` reads from a byte vector) for replay.
#![allow(dead_code)]

use logos::internal::LexerInternal;
use logos::{Lexer, Logos, Source};

pub mod sym;
use sym::*;

/// A hand-written token type whose `lex` does nothing: lets a harness drive a `Lexer` into any state through
/// the #[doc(hidden)] LexerInternal methods.
#[derive(Debug, Clone, PartialEq)]
pub struct TB;
impl<'s> Logos<'s> for TB {
    type Extras = u32;
    type Source = [u8];
    type Error = ();
    fn lex(_lex: &mut Lexer<'s, Self>) -> Option<Result<Self, ()>> { None }
}
#[derive(Debug, Clone, PartialEq)]
pub struct TS;
impl<'s> Logos<'s> for TS {
    type Extras = u32;
    type Source = str;
    type Error = ();
    fn lex(_lex: &mut Lexer<'s, Self>) -> Option<Result<Self, ()>> { None }
}
#[derive(Debug, Clone, PartialEq)]
pub struct TB2;
impl<'s> Logos<'s> for TB2 {
    type Extras = u64;
    type Source = [u8];
    type Error = ();
    fn lex(_lex: &mut Lexer<'s, Self>) -> Option<Result<Self, ()>> { None }
}

// ------------------------------------------------------------------------------------------------
// Source::read contract (C05): `Some` exactly when offset + SIZE <= len (mathematically), and then the bytes.

pub fn read_bytes_contract<const N: usize, const K: usize>(buf: &[u8; N], off: usize) {
    let src: &[u8] = &buf[..];
    let r: Option<&[u8; K]> = src.read(off);
    let fits = off <= N && K <= N - off;
    check!(r.is_some() == fits, "read: Some iff offset + SIZE <= len");
    if let Some(c) = r {
        let mut i = 0;
        while i < K {
            check!(c[i] == buf[off + i], "read: chunk holds the bytes at offset");
            i += 1;
        }
    }
    // u8 chunk
    let r1: Option<u8> = src.read(off);
    check!(r1.is_some() == (off < N), "read<u8>: Some iff offset < len");
    if let Some(b) = r1 { check!(b == buf[off], "read<u8>: the byte at offset"); }
}

pub fn read_str_contract<const N: usize, const K: usize>(buf: &[u8; N], off: usize) {
    // ASCII only, so that the buffer is valid UTF-8 without running the validator under CBMC
    let mut i = 0;
    while i < N { assume(buf[i] < 0x80); i += 1; }
    let s: &str = unsafe { core::str::from_utf8_unchecked(&buf[..]) };
    let r: Option<&[u8; K]> = s.read(off);
    let fits = off <= N && K <= N - off;
    check!(r.is_some() == fits, "str read: Some iff offset + SIZE <= len");
    if let Some(c) = r {
        let mut i = 0;
        while i < K {
            check!(c[i] == buf[off + i], "str read: chunk holds the bytes at offset");
            i += 1;
        }
    }
    let r1: Option<u8> = s.read(off);
    check!(r1.is_some() == (off < N), "str read<u8>: Some iff offset < len");
}

/// the delegating `impl<T: Deref> Source for T` (not in the Verus unit): same answers as the target
pub fn read_deref_contract<const N: usize, const K: usize>(buf: &[u8; N], off: usize) {
    let src: &[u8] = &buf[..];
    let wrapped: &&[u8] = &src;
    let a: Option<&[u8; K]> = src.read(off);
    let b: Option<&[u8; K]> = Source::read(wrapped, off);
    check!(a == b, "Deref wrapper: read delegates");
    check!(Source::len(wrapped) == N, "Deref wrapper: len delegates");
    check!(Source::is_boundary(wrapped, off) == (off <= N), "Deref wrapper: is_boundary delegates");
    if off <= N { check!(Source::find_boundary(wrapped, off) == off, "Deref wrapper: find_boundary delegates"); }
}

// ------------------------------------------------------------------------------------------------
// Lexer in an arbitrary wf state: accessors, clone, morph (C14) and bump (C15) on the real (unsafe) slicing code

pub fn lexer_state_contract<const N: usize>(buf: &[u8; N], s: usize, e: usize, n: usize) {
    assume(s <= e && e <= N);
    let src: &[u8] = &buf[..];
    let mut lex: Lexer<TB> = Lexer::with_extras(src, 7);
    lex.end(s);
    lex.trivia();
    lex.end(e);
    check!(lex.span() == (s..e), "span is (token_start, token_end)");
    check!(lex.slice().len() == e - s, "slice has the span's length");
    check!(lex.remainder().len() == N - e, "remainder runs to the end");
    if e > s { check!(lex.slice()[0] == buf[s], "slice starts at span.start"); }
    if e < N { check!(lex.remainder()[0] == buf[e], "remainder starts at span.end"); }
    let c = lex.clone();
    check!(c.span() == lex.span() && c.extras == lex.extras, "clone copies the state");
    let m: Lexer<TB2> = lex.clone().morph();
    check!(m.span() == (s..e) && m.extras == 7u64, "morph keeps position and converts extras");
    let back: Lexer<TB> = {
        let mut l2: Lexer<TB> = Lexer::with_extras(m.source(), 7);
        l2.end(m.span().start); l2.trivia(); l2.end(m.span().end);
        l2
    };
    check!(back.slice() == lex.slice(), "same source, same span, same slice");
    // in-range bump
    assume(n <= N - e);
    lex.bump(n);
    check!(lex.span() == (s..e + n), "bump extends the end by n");
    check!(lex.slice().len() == e + n - s, "slice after bump");
    check!(lex.remainder().len() == N - e - n, "remainder after bump");
}

/// C15 twin: for n that is out of range (including n whose addition overflows) bump must not return.
/// Under Kani the specified panic is the only failure allowed (the driver filters it by its message);
/// natively the replay binary wraps the call in catch_unwind and inspects the lexer afterwards.
pub fn bump_invalid_contract<const N: usize>(buf: &[u8; N], s: usize, e: usize, n: usize) {
    assume(s <= e && e <= N);
    assume(n > N - e);
    let src: &[u8] = &buf[..];
    let mut lex: Lexer<TB> = Lexer::with_extras(src, 0);
    lex.end(s);
    lex.trivia();
    lex.end(e);
    let r = guarded(|| lex.bump(n));
    check!(!r, "bump returned normally for an out-of-range n");
    let sp = lex.span();
    check!(sp.start <= sp.end && sp.end <= N, "after a failed bump the span still lies inside the source");
    check!(lex.slice().len() == sp.end - sp.start, "slice() after a failed bump is in bounds");
    check!(lex.remainder().len() == N - sp.end, "remainder() after a failed bump is in bounds");
}

pub fn bump_str_contract(e: usize, n: usize) {
    // a fixed valid UTF-8 text with 1-, 2-, 3- and 4-byte characters: "aé€😀z" (1+2+3+4+1 = 11 bytes)
    let text = "a\u{e9}\u{20ac}\u{1f600}z";
    assume(e <= text.len() && text.is_char_boundary(e));
    assume(n <= text.len() - e);
    let mut lex: Lexer<TS> = Lexer::with_extras(text, 0);
    lex.end(e);
    lex.trivia();
    let ok = text.is_char_boundary(e + n);
    let r = guarded(|| lex.bump(n));
    check!(r == ok, "bump on str succeeds exactly when the new end is a char boundary");
    let sp = lex.span();
    check!(text.is_char_boundary(sp.start) && text.is_char_boundary(sp.end), "span ends stay on char boundaries");
    let _ = lex.slice();
    let _ = lex.remainder();
}

// ------------------------------------------------------------------------------------------------
// find_boundary / is_boundary on the real code (C02, C04, C12): least boundary >= index, identity on bytes

pub fn find_boundary_str_contract(i: usize) {
    // 1-, 2-, 3- and 4-byte characters; two different 4-byte characters, one of them followed by more text
    let text = "a\u{e9}\u{20ac}\u{1f600}z\u{10000}.\u{10ffff}";
    assume(i <= text.len());
    let r = Source::find_boundary(text, i);
    check!(i <= r && r <= text.len(), "find_boundary: index <= result <= len");
    check!(text.is_char_boundary(r), "find_boundary: the result is a char boundary");
    check!(Source::is_boundary(text, r), "is_boundary agrees with is_char_boundary");
    let mut j = i;
    while j < r {
        check!(!text.is_char_boundary(j), "find_boundary: no boundary is skipped");
        j += 1;
    }
    check!(r - i <= 3, "find_boundary: a boundary is at most three bytes away");
    check!(Source::is_boundary(text, i) == text.is_char_boundary(i), "is_boundary(str)");
}

pub fn find_boundary_bytes_contract<const N: usize>(buf: &[u8; N], i: usize) {
    let src: &[u8] = &buf[..];
    check!(Source::is_boundary(src, i) == (i <= N), "is_boundary([u8]) is index <= len");
    assume(i <= N);
    check!(Source::find_boundary(src, i) == i, "find_boundary([u8]) is the identity");
}

pub mod proofs;
