#!/usr/bin/env python3
"""Generate src/harness_list.rs (deterministic).  Lengths 0..=40 x chunk sizes for read; a few lengths for lexer state."""
import sys
L = 40
out = ['harnesses! {']
for n in range(0, L + 1):
    for k in (0, 1, 2, 8, 32):
        out.append('    read_n%d_k%d [34] => read_bytes_contract::<%d, %d>(&any(), any());' % (n, k, n, k))
    for k in (0, 1, 2, 8):
        if n <= 16: out.append('    read_str_n%d_k%d [34] => read_str_contract::<%d, %d>(&any(), any());' % (n, k, n, k))
    if n in (0, 1, 3, 9, 33):
        for k in (2, 8): out.append('    read_deref_n%d_k%d [34] => read_deref_contract::<%d, %d>(&any(), any());' % (n, k, n, k))
for n in range(0, 13):
    out.append('    state_n%d [16] => lexer_state_contract::<%d>(&any(), any(), any(), any());' % (n, n))
    out.append('    bump_twin_n%d [16] => bump_invalid_contract::<%d>(&any(), any(), any(), any());' % (n, n))
out.append('    bump_str [16] => bump_str_contract(any(), any());')
out.append('    find_boundary_str [8] => find_boundary_str_contract(any());')
for n in (0, 1, 5):
    out.append('    find_boundary_bytes_n%d [8] => find_boundary_bytes_contract::<%d>(&any(), any());' % (n, n))
out.append('}')
if len(sys.argv) > 2:
    keep = set(l.strip() for l in open(sys.argv[2]) if l.strip())
    out = [l for l in out if not l.startswith('    ') or l.strip().split(' ')[0] in keep]
open(sys.argv[1] if len(sys.argv) > 1 else 'src/harness_list.rs', 'w').write('\n'.join(out) + '\n')
