//! K-cg: bounded Kani harnesses over private items of logos-codegen/src/graph/mod.rs that Verus cannot take
//! (iterator adapters, `continue` in `for`): ByteClass::impl_with_cmp and StateData::add_back_edge.  Included into the crate only under cfg(kani) by a #[path] module declaration.
//! Inputs: well-formed byte classes with at most K ranges whose bounds are symbolic  =>  bounded in K, complete in the bounds.
use super::*;

fn wf(bc: &ByteClass) -> bool {
    let mut ok = true;
    let mut i = 0;
    while i < bc.ranges.len() {
        let r = &bc.ranges[i];
        if r.start() > r.end() { ok = false; }
        if i > 0 {
            let p = &bc.ranges[i - 1];
            if (*p.end() as u16) + 1 >= (*r.start() as u16) { ok = false; }
        }
        i += 1;
    }
    ok
}

fn has(bc: &ByteClass, x: u8) -> bool {
    let mut r = false;
    let mut i = 0;
    while i < bc.ranges.len() {
        if *bc.ranges[i].start() <= x && x <= *bc.ranges[i].end() { r = true; }
        i += 1;
    }
    r
}

fn any_class(k: usize) -> ByteClass {
    let mut bc = ByteClass::new();
    let mut i = 0;
    while i < k {
        let s: u8 = kani::any();
        let e: u8 = kani::any();
        bc.ranges.push(s..=e);
        i += 1;
    }
    kani::assume(wf(&bc));
    bc
}

/// the condition the generator renders for one Comparisons entry: `matches!(byte, s..=e) && byte != x ...`
fn cmp_denotes(c: &Comparisons, x: u8) -> bool {
    let mut r = *c.range.start() <= x && x <= *c.range.end();
    let mut i = 0;
    while i < c.except.len() {
        if c.except[i] == x { r = false; }
        i += 1;
    }
    r
}

fn check_impl_with_cmp(k: usize) {
    let bc = any_class(k);
    let cmps = bc.impl_with_cmp();
    let x: u8 = kani::any();
    let mut d = false;
    let mut i = 0;
    while i < cmps.len() {
        if cmp_denotes(&cmps[i], x) { d = true; }
        // every exception lies strictly inside its range, ranges ascend
        let mut j = 0;
        while j < cmps[i].except.len() {
            kani::assert(*cmps[i].range.start() < cmps[i].except[j] && cmps[i].except[j] < *cmps[i].range.end(), "impl_with_cmp: exception strictly inside its range");
            j += 1;
        }
        if i > 0 { kani::assert(*cmps[i - 1].range.end() < *cmps[i].range.start(), "impl_with_cmp: ranges ascend"); }
        let _ = cmps[i].count_ops();
        i += 1;
    }
    kani::assert(d == has(&bc, x), "impl_with_cmp: the comparison list is true exactly on the bytes of the class");
    kani::assert(cmps.len() <= k, "impl_with_cmp: never more comparisons than ranges");
    kani::cover!(cmps.len() < k, "impl_with_cmp: two ranges fused with an exception");
}

#[kani::proof] #[kani::unwind(5)] fn cg_impl_with_cmp_k1() { check_impl_with_cmp(1) }
#[kani::proof] #[kani::unwind(5)] fn cg_impl_with_cmp_k2() { check_impl_with_cmp(2) }
#[kani::proof] #[kani::unwind(6)] fn cg_impl_with_cmp_k3() { check_impl_with_cmp(3) }

// StateData::can_error is NOT covered here: it calls slice::sort_unstable_by_key, and CBMC does not get through the standard
// library's sort (recursive pivot selection) even for two elements (measured: > 25 min).  Its effect - gating early accepts -
// is exercised through the K-lex corpus only.

fn check_add_back_edge(n: usize) {
    let mut sd = StateData::new();
    let mut i = 0;
    while i < n {
        let s: usize = kani::any();
        kani::assume(s < 8);
        if i > 0 { kani::assume(sd.backward[i - 1] < State(s)); }
        sd.backward.push(State(s));
        i += 1;
    }
    let x: usize = kani::any();
    kani::assume(x < 8);
    let before = sd.backward.clone();
    sd.add_back_edge(State(x));
    let mut sorted = true;
    let mut k = 1;
    while k < sd.backward.len() { if !(sd.backward[k - 1] < sd.backward[k]) { sorted = false; } k += 1; }
    kani::assert(sorted, "add_back_edge: backward stays strictly sorted");
    kani::assert(sd.backward.contains(&State(x)), "add_back_edge: the state is present afterwards");
    let was = before.contains(&State(x));
    kani::assert(sd.backward.len() == before.len() + if was { 0 } else { 1 }, "add_back_edge: set insert");
    let mut m = 0;
    while m < before.len() { kani::assert(sd.backward.contains(&before[m]), "add_back_edge: nothing lost"); m += 1; }
}
#[kani::proof] #[kani::unwind(6)] fn cg_add_back_edge_n0() { check_add_back_edge(0) }
#[kani::proof] #[kani::unwind(6)] fn cg_add_back_edge_n2() { check_add_back_edge(2) }
#[kani::proof] #[kani::unwind(7)] fn cg_add_back_edge_n3() { check_add_back_edge(3) }

// ByteClass::merge is NOT covered here either: two 256-iteration loops over symbolic ranges (measured: > 25 min for one range
// each).  ByteClass::to_table and add_byte, which it is built from, are proved in the Verus unit V-cg.
